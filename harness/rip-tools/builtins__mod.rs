// Kani harnesses mounted into crates/rip-tools/src/builtins/mod.rs (cfg(kani) only).
#![allow(unused_imports, dead_code)]
use super::*;
include!("/verif/harness/common.rs");

// C13 -- the file tools' lexical resolver: Ok(p) only for strings that are not absolute and contain no `..` segment.
macro_rules! c13_resolve {
    ($name:ident, $len:expr, $unwind:expr) => {
        #[kani::proof]
        #[kani::unwind($unwind)]
        #[kani::stub(std::fmt::format, stub_fmt_format)]
        fn $name() {
            let b = sym_path_bytes::<$len>();
            let raw = unsafe { core::str::from_utf8_unchecked(&b) };
            let root = Path::new("/r");
            let r = resolve_path(root, raw);
            let esc = path_escapes(&b);
            kani::cover!(r.is_ok(), "a path is accepted");
            kani::cover!(esc, "an escaping path is generated");
            if esc {
                assert!(r.is_err(), "file-tool resolver accepted an absolute path or a path with a `..` segment");
            }
            core::mem::forget(r);
        }
    };
}
c13_resolve!(c13_tools_resolve_len2, 2, 6);
c13_resolve!(c13_tools_resolve_len3, 3, 7);
c13_resolve!(c13t_tools_resolve_len5, 5, 9);

#[kani::proof]
fn c00_setup_probe() {
    let x: u8 = kani::any();
    assert!(x as u16 <= 255);
}
