// Kani harnesses mounted into crates/rip-tools/src/builtins/mod.rs (cfg(kani) only).
#![allow(unused_imports, dead_code)]
use super::*;
include!("/verif/harness/common.rs");

// C13 -- the file tools' lexical resolver: Ok(p) only for strings that are not absolute and contain no `..` segment.
macro_rules! c13_resolve {
    ($name:ident, $len:expr, $unwind:expr) => {
        #[kani::proof]
        #[kani::unwind($unwind)]
        #[kani::stub(std::fmt::format, stub_fmt_format)]
        fn $name() {
            let b = sym_path_bytes::<$len>();
            let raw = unsafe { core::str::from_utf8_unchecked(&b) };
            let root = Path::new("/r");
            let r = resolve_path(root, raw);
            let esc = path_escapes(&b);
            kani::cover!(r.is_ok(), "a path is accepted");
            kani::cover!(esc, "an escaping path is generated");
            if esc {
                assert!(r.is_err(), "file-tool resolver accepted an absolute path or a path with a `..` segment");
            }
            core::mem::forget(r);
        }
    };
}
c13_resolve!(c13_tools_resolve_len2, 2, 6);
c13_resolve!(c13_tools_resolve_len3, 3, 7);
// 4 bytes is the shortest length at which `..` can sit in a NON-first component (`a/..`, `./..`): seed C13c needs it
c13_resolve!(c13_tools_resolve_len4, 4, 8);
c13_resolve!(c13t_tools_resolve_len5, 5, 9);

#[kani::proof]
fn c00_setup_probe() {
    let x: u8 = kani::any();
    assert!(x as u16 <= 255);
}

// C17 (one clause only): "the inline preview is a prefix of [the stored output] within its own limit" -- the truncation
// kernel of the foreground shell tool. ANY valid UTF-8 text of 4 bytes (1- to 4-byte characters) and ANY limit 0..=5:
// the preview is byte-for-byte a prefix of the text, never longer than the limit, ends on a character boundary, is the
// LONGEST such prefix, and `truncated` is reported exactly when something was cut.
#[kani::proof]
#[kani::unwind(8)]
// NOT REGISTERED (name outside the cNN_ convention): does not finish in 600 s (String::from_utf8_lossy + repeated
// from_utf8 over symbolic prefixes); C17 stays not applicable.
fn zz_c17_truncate_utf8_prefix() {
    let bytes: [u8; 4] = kani::any();
    kani::assume(core::str::from_utf8(&bytes).is_ok());
    let max: usize = kani::any();
    kani::assume(max <= 5);
    let (text, truncated, used) = truncate_utf8(&bytes, max);
    assert!(used <= max && used <= 4, "preview longer than its limit");
    assert!(text.len() == used, "preview text and reported length disagree");
    let tb = text.as_bytes();
    let mut i = 0;
    while i < used {
        assert!(tb[i] == bytes[i], "preview is not a prefix of the output");
        i += 1;
    }
    assert!(truncated == (4 > max), "truncation flag wrong");
    if truncated {
        let mut k = used + 1;
        while k <= max {
            assert!(core::str::from_utf8(&bytes[..k]).is_err(), "preview is not the longest prefix within the limit");
            k += 1;
        }
    }
    kani::cover!(truncated && used < max, "cut moved back to a character boundary");
    kani::cover!(!truncated, "nothing cut");
    core::mem::forget(text);
}
