// Kani harnesses mounted into crates/rip-tools/src/builtins/shell.rs (cfg(kani) only).
#![allow(unused_imports, dead_code)]
use super::*;
include!("/verif/harness/common.rs");

// slice-based family, compiled only for its own property (see harness/ripd/session.rs)
include!(env!("VERIF_SLICE_C17_SHELL"));
