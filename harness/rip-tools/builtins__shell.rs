// Kani harnesses mounted into crates/rip-tools/src/builtins/shell.rs (cfg(kani) only).
#![allow(unused_imports, dead_code)]
use super::*;
