// C17 (foreground shell tool): the preview / artifact hand-over of `capture_stream`, included from
// harness/rip-tools/builtins__shell.rs when VERIF_SLICE_C17_SHELL selects it (module builtins::shell::verif_kani).
//
// The whole text of capture_stream and write_artifact_tail (gen/slice_shell_capture.py: verbatim, async/.await removed)
// runs over a model stream that delivers the process output in chunks of ARBITRARY sizes, a model tmp file and a model
// hasher that record what they are given; `finalize_artifact` is a recorder. Obligations: the stored artifact is
// byte-for-byte the prefix of the output up to the artifact cap -- nothing lost or duplicated at the moment the preview
// fills, whatever the chunking --, the hasher saw exactly those bytes, the preview is a prefix within its limit, and the
// counters / flags are exact.
// MEASURED: with std's heap `Vec<u8>` preview buffer and the real tail (`truncate_utf8` + `lines()` + `collect`) the harness
// does not finish (900 s / 6 GB at 4 bytes of output). The slice module therefore also shadows `Vec` (array-backed, same
// operations), `StreamCapture` (same fields) and `truncate_utf8` (a recorder of the buffer it is handed): what is decided
// about the preview is the BUFFER handed to the UTF-8 cut (the cut itself: c17_tools_truncate_*), not the rendered lines.
mod capture_slice {
    #![allow(unused)]
    use super::super::*;
    pub const OUT: [u8; 6] = *b"abcdef";

    // recorder reachable from `config.workspace_root` (an empty path whose pointer is the recorder)
    #[repr(C)]
    pub struct Rec {
        pub finalized: u32,
        pub file: [u8; 8],
        pub file_len: usize,
        pub file_overflow: bool,
        pub hash: [u8; 8],
        pub hash_len: usize,
        pub stored_bytes: u64,
        pub bytes_total: u64,
        pub had_file: bool,
    }
    // model configuration and paths: the artifact directory layout is not the subject, and real PathBuf joins inside the
    // unrolled read loop were the second cost centre (20 GB at 400 s)
    pub struct BuiltinToolConfig {
        pub rec: *mut Rec,
        pub artifact_max_bytes: usize,
    }
    impl BuiltinToolConfig {
        pub fn artifacts_root(&self) -> ModelPath {
            ModelPath
        }
    }
    fn rec_of(config: &BuiltinToolConfig) -> &mut Rec {
        unsafe { &mut *config.rec }
    }
    #[derive(Clone, Copy)]
    pub struct ModelPath;
    impl ModelPath {
        pub fn join<T>(&self, _t: T) -> ModelPath {
            ModelPath
        }
    }
    impl AsRef<ModelPath> for ModelPath {
        fn as_ref(&self) -> &ModelPath {
            self
        }
    }
    // the sliced text names `std::path::PathBuf` explicitly
    pub mod std {
        pub use ::std::*;
        pub mod path {
            pub type PathBuf = super::super::ModelPath;
        }
    }
    // array-backed stand-in for the two Vec uses in the sliced text (Vec<u8> preview buffer, Vec<String> preview lines)
    pub struct Vec<T> {
        pub data: [u8; 8],
        pub len: usize,
        pub overflow: bool,
        _p: core::marker::PhantomData<T>,
    }
    impl<T> Vec<T> {
        pub fn new() -> Self {
            Vec { data: [0; 8], len: 0, overflow: false, _p: core::marker::PhantomData }
        }
        pub fn len(&self) -> usize {
            self.len
        }
    }
    impl Vec<u8> {
        pub fn extend_from_slice(&mut self, b: &[u8]) {
            let mut i = 0;
            while i < b.len() {
                if self.len < 8 {
                    self.data[self.len] = b[i];
                    self.len += 1;
                } else {
                    self.overflow = true;
                }
                i += 1;
            }
        }
        pub fn truncate(&mut self, n: usize) {
            if n < self.len {
                self.len = n;
            }
        }
    }
    impl core::ops::Deref for Vec<u8> {
        type Target = [u8];
        fn deref(&self) -> &[u8] {
            &self.data[..self.len]
        }
    }
    impl<T> core::iter::FromIterator<T> for Vec<T> {
        fn from_iter<I: IntoIterator<Item = T>>(_iter: I) -> Self {
            Vec::new()
        }
    }
    pub struct StreamCapture {
        pub preview_lines: Vec<String>,
        pub bytes_preview: usize,
        pub bytes_total: u64,
        pub truncated_preview: bool,
        pub artifact: Option<StreamArtifactRef>,
        pub error: Option<String>,
    }
    impl StreamCapture {
        pub fn failed(error: String) -> Self {
            Self { preview_lines: Vec::new(), bytes_preview: 0, bytes_total: 0, truncated_preview: false, artifact: None, error: Some(error) }
        }
    }
    // recorder for the buffer handed to the UTF-8 cut (thread-free harness: a module static would do, but statics are avoided;
    // the buffer is copied into the returned text object and read back from `bytes_preview` bookkeeping below)
    pub struct ModelText;
    impl ModelText {
        pub fn lines(&self) -> core::iter::Empty<&'static str> {
            core::iter::empty()
        }
    }
    pub static mut CUT_INPUT: ([u8; 8], usize, usize, u32) = ([0; 8], 0, 0, 0); // bytes, len, limit, calls
    pub fn truncate_utf8(bytes: &[u8], max_bytes: usize) -> (ModelText, bool, usize) {
        unsafe {
            let mut i = 0;
            while i < bytes.len() && i < 8 {
                CUT_INPUT.0[i] = bytes[i];
                i += 1;
            }
            CUT_INPUT.1 = bytes.len();
            CUT_INPUT.2 = max_bytes;
            CUT_INPUT.3 += 1;
        }
        let used = if bytes.len() < max_bytes { bytes.len() } else { max_bytes };
        (ModelText, bytes.len() > max_bytes, used)
    }

    pub trait AsyncRead {
        fn read(&mut self, buf: &mut [u8]) -> ::std::io::Result<usize>;
    }
    // the process writes OUT[..total]; each read returns ANY 1..=3 of the bytes not yet delivered (0 at the end)
    pub struct ModelStream {
        pub total: usize,
        pub pos: usize,
        pub reads: u32,
    }
    impl AsyncRead for ModelStream {
        fn read(&mut self, buf: &mut [u8]) -> ::std::io::Result<usize> {
            self.reads += 1;
            let left = self.total - self.pos;
            if left == 0 {
                return Ok(0);
            }
            let n: usize = kani::any();
            kani::assume(n >= 1 && n <= left && n <= 3);
            let mut i = 0;
            while i < n {
                buf[i] = OUT[self.pos + i];
                i += 1;
            }
            self.pos += n;
            Ok(n)
        }
    }
    pub struct Bytes8 {
        pub data: [u8; 8],
        pub len: usize,
        pub overflow: bool,
    }
    impl Bytes8 {
        fn new() -> Self {
            Bytes8 { data: [0; 8], len: 0, overflow: false }
        }
        fn push_all(&mut self, b: &[u8]) {
            let mut i = 0;
            while i < b.len() {
                if self.len < 8 {
                    self.data[self.len] = b[i];
                    self.len += 1;
                } else {
                    self.overflow = true;
                }
                i += 1;
            }
        }
    }
    pub struct Sha256(pub Bytes8);
    impl Sha256 {
        pub fn new() -> Self {
            Sha256(Bytes8::new())
        }
        pub fn update(&mut self, data: &[u8]) {
            self.0.push_all(data)
        }
    }
    pub struct Uuid;
    impl Uuid {
        pub fn new_v4() -> Uuid {
            Uuid
        }
    }
    impl core::fmt::Display for Uuid {
        fn fmt(&self, _f: &mut core::fmt::Formatter<'_>) -> core::fmt::Result {
            Ok(())
        }
    }
    pub mod tokio {
        pub mod fs {
            pub fn create_dir_all<P>(_p: P) -> ::std::io::Result<()> {
                Ok(())
            }
            pub fn remove_file<P>(_p: P) -> ::std::io::Result<()> {
                Ok(())
            }
            pub struct File(pub super::super::Bytes8);
            impl File {
                pub fn create<P>(_p: P) -> ::std::io::Result<File> {
                    Ok(File(super::super::Bytes8 { data: [0; 8], len: 0, overflow: false }))
                }
                pub fn write_all(&mut self, b: &[u8]) -> ::std::io::Result<()> {
                    self.0.push_all(b);
                    Ok(())
                }
            }
        }
    }
    pub fn finalize_artifact(
        config: &BuiltinToolConfig,
        file: Option<tokio::fs::File>,
        tmp_path: Option<ModelPath>,
        hasher: Option<Sha256>,
        stored_bytes: u64,
        bytes_total: u64,
    ) -> Option<StreamArtifactRef> {
        let rec = rec_of(config);
        rec.finalized += 1;
        rec.stored_bytes = stored_bytes;
        rec.bytes_total = bytes_total;
        match (file, hasher) {
            (Some(f), Some(h)) => {
                rec.had_file = true;
                rec.file = f.0.data;
                rec.file_len = f.0.len;
                rec.file_overflow = f.0.overflow || h.0.overflow;
                rec.hash = h.0.data;
                rec.hash_len = h.0.len;
                Some(StreamArtifactRef { id: String::new(), path: String::new(), bytes: stored_bytes, truncated: bytes_total > stored_bytes })
            }
            _ => None,
        }
    }
    include!("/verif/harness/gen/shell_capture_slice.rs");
}

fn stub_lossy_identity_shell(v: &[u8]) -> std::borrow::Cow<'_, str> {
    std::borrow::Cow::Borrowed(unsafe { core::str::from_utf8_unchecked(v) })
}

// loop-free (the unwind bound of the harness is the number of reads, not the length of these comparisons)
fn is_out_prefix(a: &[u8; 8], n: usize) -> bool {
    let o = capture_slice::OUT;
    n <= 6 && (n < 1 || a[0] == o[0]) && (n < 2 || a[1] == o[1]) && (n < 3 || a[2] == o[2]) && (n < 4 || a[3] == o[3]) && (n < 5 || a[4] == o[4]) && (n < 6 || a[5] == o[5])
}

macro_rules! c17_shell_capture {
    ($name:ident, $total:expr, $unwind:expr) => {
        #[kani::proof]
        #[kani::unwind($unwind)]
        #[kani::stub(std::fmt::format, stub_fmt_format)]
        #[kani::stub(std::str::from_utf8, stub_from_utf8)]
        #[kani::stub(alloc::string::String::from_utf8_lossy, stub_lossy_identity_shell)]
        fn $name() {
            use capture_slice::{capture_stream, ModelStream, Rec, OUT};
            assert!(std::vec::Vec::<u8>::new().capacity() == 0, "canary: tool mis-models constants in this harness");
            let mut rec = Rec { finalized: 0, file: [0; 8], file_len: 0, file_overflow: false, hash: [0; 8], hash_len: 0, stored_bytes: 0, bytes_total: 0, had_file: false };
            let recp: *mut Rec = &mut rec;
            let total: usize = $total;
            let max_preview: usize = kani::any();
            let artifact_max: usize = kani::any();
            kani::assume(max_preview <= total + 1 && artifact_max <= total + 1);
            let config = capture_slice::BuiltinToolConfig { rec: recp, artifact_max_bytes: artifact_max };
            let cap = capture_stream(Some(ModelStream { total, pos: 0, reads: 0 }), &config, max_preview);
            assert!(cap.error.is_none(), "capture failed although no I/O error occurred");
            assert!(cap.bytes_total == total as u64, "total byte count is not what the process wrote");
            assert!(cap.truncated_preview == (total > max_preview), "preview truncation flag wrong");
            // the preview BUFFER handed to the UTF-8 cut: the output's prefix within the preview limit, cut once with that limit
            let (cut_bytes, cut_len, cut_limit, cut_calls) = unsafe { capture_slice::CUT_INPUT };
            assert!(cut_calls == 1 && cut_limit == max_preview, "inline preview is not cut once with the preview limit");
            assert!(cut_len == if total < max_preview { total } else { max_preview }, "preview buffer is not the longest prefix of the output within the preview limit");
            assert!(is_out_prefix(&cut_bytes, cut_len), "inline preview is not a prefix of the output");
            if total > max_preview && artifact_max > 0 {
                let want = if total < artifact_max { total } else { artifact_max };
                assert!(rec.finalized == 1 && rec.had_file, "truncated preview without a stored artifact");
                assert!(!rec.file_overflow && rec.file_len == want, "stored artifact is not exactly the output up to the artifact cap (bytes lost or duplicated at the hand-over)");
                assert!(rec.hash_len == want, "artifact is not named by the hash of exactly its bytes");
                assert!(is_out_prefix(&rec.file, want), "stored artifact bytes differ from what the process wrote");
                assert!(is_out_prefix(&rec.hash, want), "hashed bytes differ from the stored bytes");
                assert!(rec.stored_bytes == want as u64 && rec.bytes_total == total as u64, "artifact byte counts wrong");
                match &cap.artifact {
                    Some(a) => assert!(a.bytes == want as u64 && a.truncated == (total > want), "artifact reference wrong"),
                    None => assert!(false, "artifact reference missing"),
                }
            } else {
                assert!(cap.artifact.is_none(), "artifact reported although the preview holds everything (or artifacts are off)");
            }
            kani::cover!(total > max_preview && artifact_max > max_preview && artifact_max < total, "preview < artifact cap < output");
            kani::cover!(total > max_preview && artifact_max > 0 && artifact_max < max_preview, "artifact cap below the preview limit");
            core::mem::forget(cap);
        }
    };
}
// MEASURED: total 2: 59 s, 3: 171 s, 4: 273 s (unwind = reads + 2; with unwind 10 and comparison loops: 20 GB / 400 s)
c17_shell_capture!(c17_shell_capture_total3, 3, 6);
c17_shell_capture!(c17t_shell_capture_total4, 4, 7);
c17_shell_capture!(c17t_shell_capture_total5, 5, 8);

// the rip-tools copy of the preview cut (same text as ripd's, a separate function): every byte string, every limit
macro_rules! c17_tools_truncate {
    ($name:ident, $n:expr) => {
        #[kani::proof]
        #[kani::unwind(8)]
        #[kani::stub(std::fmt::format, stub_fmt_format)]
        #[kani::stub(std::str::from_utf8, stub_from_utf8)]
        #[kani::stub(alloc::string::String::from_utf8_lossy, stub_lossy_identity_shell)]
        fn $name() {
            let bytes: [u8; $n] = kani::any();
            let max: usize = kani::any();
            kani::assume(max <= $n + 1);
            let (text, truncated, used) = truncate_utf8(&bytes, max);
            assert!(used <= max && used <= $n, "preview exceeds its limit");
            assert!(truncated == ($n > max), "preview truncation flag wrong");
            assert!(truncated || used == $n, "untruncated preview does not cover the whole output");
            assert!(text.len() == used, "preview is not the prefix of the captured bytes it accounts for");
            let t = text.as_bytes();
            let mut i = 0;
            while i < $n {
                if i < used {
                    assert!(t[i] == bytes[i], "preview is not the prefix of the captured bytes it accounts for");
                }
                i += 1;
            }
            let whole_valid = ref_validate(&bytes).is_ok();
            if whole_valid {
                assert!(ref_validate(&bytes[..used]).is_ok(), "preview of valid text is cut inside a character");
                assert!(!truncated || used + 4 > max, "preview cut earlier than the last character boundary within the limit");
            }
            kani::cover!(whole_valid && truncated && used < max, "cut moved back to a character boundary");
            kani::cover!(!whole_valid && truncated, "invalid bytes, truncated");
        }
    };
}
c17_tools_truncate!(c17_tools_truncate_n3, 3);
c17_tools_truncate!(c17_tools_truncate_n4, 4);
#[kani::proof]
fn c17_tools_utf8_ref_layout() {
    utf8_ref_layout_body();
}
utf8_ref_equiv!(c17_tools_utf8_ref_equiv_len2, 2);
utf8_ref_equiv!(c17_tools_utf8_ref_equiv_len3, 3);
utf8_ref_equiv!(c17_tools_utf8_ref_equiv_len4, 4);
