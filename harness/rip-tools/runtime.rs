// Kani harnesses mounted into crates/rip-tools/src/runtime.rs (cfg(kani) only).
#![allow(unused_imports, dead_code)]
use super::*;
include!("/verif/harness/common.rs");

// slice-based family, selected per property at compile time (see harness/ripd/session.rs)
include!(env!("VERIF_SLICE_C14_TOOLS"));

fn stub_uuid_v4() -> Uuid {
    Uuid::from_bytes([7u8; 16])
}
fn stub_now_ms() -> u64 {
    kani::any()
}
fn stub_to_string<T: core::fmt::Display + ?Sized>(_t: &T) -> String {
    String::new()
}

// the checkpoint hook double: answers per shape, records what it was asked for
struct HookDouble {
    ok: bool,
    calls: core::cell::Cell<u32>,
    saw_auto: core::cell::Cell<bool>,
    saw_files: core::cell::Cell<usize>,
}
unsafe impl Sync for HookDouble {}
unsafe impl Send for HookDouble {}
impl CheckpointHook for HookDouble {
    fn create(&self, request: CheckpointRequest) -> Result<CheckpointRecord, String> {
        self.calls.set(self.calls.get() + 1);
        self.saw_auto.set(request.auto);
        self.saw_files.set(request.files.len());
        core::mem::forget(request);
        if self.ok {
            Ok(CheckpointRecord { id: String::new(), label: String::new(), created_at_ms: 0, files: Vec::new() })
        } else {
            Err(String::new())
        }
    }
    fn rewind(&self, _s: &str, _c: &str) -> Result<CheckpointRewindRecord, String> {
        Err(String::new())
    }
}
fn files_one(_inv: &ToolInvocation) -> Result<Option<Vec<PathBuf>>, String> {
    let mut v = Vec::with_capacity(1);
    v.push(PathBuf::from("a"));
    Ok(Some(v))
}
fn files_none(_inv: &ToolInvocation) -> Result<Option<Vec<PathBuf>>, String> {
    Ok(None)
}
fn files_err(_inv: &ToolInvocation) -> Result<Option<Vec<PathBuf>>, String> {
    Err(String::new())
}

// C01 (session seq threaded through the tool runner) + C14 (the automatic checkpoint is requested, as `auto`, for the
// files the tool names, and its outcome frame precedes the tool's own frames): the real emit_checkpoint_events /
// emit with the session's seq symbolic. Shape = (what the invocation names, hook outcome).
macro_rules! c01_tool_checkpoint {
    ($name:ident, $files:path, $hook_ok:expr, $want_frames:expr, $want_created:expr, $want_calls:expr) => {
        #[kani::proof]
        #[kani::unwind(6)]
        #[kani::stub(std::fmt::format, stub_fmt_format)]
        #[kani::stub(std::hash::RandomState::new, stub_random_state_new)]
        #[kani::stub(uuid::Uuid::new_v4, stub_uuid_v4)]
        #[kani::stub(now_ms, stub_now_ms)]
        #[kani::stub(alloc::string::ToString::to_string, stub_to_string)]
        #[kani::stub(files_for_invocation, $files)]
        fn $name() {
            let hook = Arc::new(HookDouble { ok: $hook_ok, calls: core::cell::Cell::new(0), saw_auto: core::cell::Cell::new(false), saw_files: core::cell::Cell::new(0) });
            let dyn_hook: Arc<dyn CheckpointHook> = hook.clone();
            let runner = ToolRunner {
                registry: Arc::new(ToolRegistry::default()),
                semaphore: Arc::new(Semaphore::new(1)),
                checkpoint_hook: Some(dyn_hook),
            };
            let inv = ToolInvocation { name: String::from("write"), args: Value::Null, timeout_ms: None };
            let seq_in: u64 = kani::any();
            kani::assume(seq_in < u64::MAX - 4);
            let mut seq = seq_in;
            let mut events: Vec<Event> = Vec::with_capacity(2);
            runner.emit_checkpoint_events("s", &mut seq, &inv, &mut events);
            assert!(events.len() == $want_frames, "wrong number of checkpoint frames for this tool invocation");
            assert!(seq == seq_in + $want_frames as u64, "session seq not advanced by exactly the number of frames emitted");
            if $want_frames == 1 {
                assert!(events[0].seq == seq_in, "checkpoint frame does not carry the session's current seq");
                let created = matches!(events[0].kind, EventKind::CheckpointCreated { auto: true, .. });
                let failed = matches!(events[0].kind, EventKind::CheckpointFailed { .. });
                assert!(created == $want_created && failed == !$want_created, "checkpoint outcome frame does not match the hook's outcome");
            }
            assert!(hook.calls.get() == $want_calls, "checkpoint hook called a wrong number of times");
            if $want_calls == 1 {
                assert!(hook.saw_auto.get() && hook.saw_files.get() == 1, "automatic checkpoint not requested as `auto` for exactly the files the tool names");
            }
            kani::cover!(true, "decided");
            core::mem::forget(events);
            core::mem::forget(inv);
            core::mem::forget(runner);
            core::mem::forget(hook);
        }
    };
}
c01_tool_checkpoint!(c01_tool_checkpoint_created, files_one, true, 1, true, 1);
c01_tool_checkpoint!(c01_tool_checkpoint_hook_failed, files_one, false, 1, false, 1);
c01_tool_checkpoint!(c01_tool_checkpoint_bad_args, files_err, true, 1, false, 0);
c01_tool_checkpoint!(c01_tool_checkpoint_not_editing, files_none, true, 0, false, 0);
