// C14 harness over a source slice, included from harness/rip-tools/runtime.rs when VERIF_SLICE_C14_TOOLS selects it.
// "An automatic checkpoint ... covers every file that tool can change": the `"apply_patch"` arm of files_for_invocation
// (gen/slice_checkpoint_files.py, verbatim) over a model patch of two operations of ANY kind: the files handed to the checkpoint
// hook include every path the operations name -- move targets included. `Patch::affected_paths` is modelled here; the real one is
// decided by c14_affected_paths_* in the rip-workspace crate.
mod ckpt_files {
    #![allow(unused)]
    #[derive(Clone, Copy, PartialEq, Debug)]
    pub struct PathBuf(pub u8);
    macro_rules! format {
        ($($t:tt)*) => {
            String::new()
        };
    }
    pub struct ModelErr;
    #[derive(Clone, Copy)]
    pub struct ModelText {
        pub ops: [rip_workspace::PatchOp; 2],
        pub args_ok: bool,
        pub parse_ok: bool,
    }
    pub struct ToolInvocation {
        pub args: ModelText,
    }
    pub struct ApplyPatchArgs {
        pub patch: ModelText,
    }
    pub trait FromArgs: Sized {
        fn from_args(v: ModelText) -> Self;
    }
    impl FromArgs for ApplyPatchArgs {
        fn from_args(v: ModelText) -> Self {
            ApplyPatchArgs { patch: v }
        }
    }
    pub mod serde_json {
        use super::*;
        pub fn from_value<T: FromArgs>(v: ModelText) -> Result<T, ModelErr> {
            if v.args_ok {
                Ok(T::from_args(v))
            } else {
                Err(ModelErr)
            }
        }
    }
    pub mod rip_workspace {
        use super::{ModelErr, ModelText, PathBuf};
        #[derive(Clone, Copy)]
        pub enum PatchOp {
            AddFile { path: PathBuf, content: u8 },
            DeleteFile { path: PathBuf },
            UpdateFile { path: PathBuf, moved_to: Option<PathBuf>, hunks: u8 },
        }
        pub struct Patch {
            pub ops: [PatchOp; 2],
        }
        impl Patch {
            pub fn parse(t: &ModelText) -> Result<Patch, ModelErr> {
                if t.parse_ok {
                    Ok(Patch { ops: t.ops })
                } else {
                    Err(ModelErr)
                }
            }
            pub fn ops(&self) -> &[PatchOp] {
                &self.ops
            }
            // model of rip_workspace::Patch::affected_paths (the real one: c14_affected_paths_*, rip-workspace)
            pub fn affected_paths(&self) -> Vec<PathBuf> {
                let mut v = Vec::with_capacity(4);
                let mut i = 0;
                while i < 2 {
                    match self.ops[i] {
                        PatchOp::AddFile { path, .. } => v.push(path),
                        PatchOp::DeleteFile { path } => v.push(path),
                        PatchOp::UpdateFile { path, moved_to, .. } => {
                            v.push(path);
                            if let Some(t) = moved_to {
                                v.push(t);
                            }
                        }
                    }
                    i += 1;
                }
                v
            }
        }
    }
    include!("/verif/harness/gen/checkpoint_files_slice.rs");
}

fn k14_any_op() -> ckpt_files::rip_workspace::PatchOp {
    use ckpt_files::rip_workspace::PatchOp;
    use ckpt_files::PathBuf;
    let kind: u8 = kani::any();
    kani::assume(kind < 4);
    let p: u8 = kani::any();
    let t: u8 = kani::any();
    kani::assume(p < 4 && t < 4);
    match kind {
        0 => PatchOp::AddFile { path: PathBuf(p), content: 0 },
        1 => PatchOp::DeleteFile { path: PathBuf(p) },
        2 => PatchOp::UpdateFile { path: PathBuf(p), moved_to: None, hunks: 0 },
        _ => PatchOp::UpdateFile { path: PathBuf(p), moved_to: Some(PathBuf(t)), hunks: 0 },
    }
}

#[kani::proof]
#[kani::unwind(8)]
fn c14_auto_checkpoint_covers_patch_files() {
    use ckpt_files::rip_workspace::PatchOp;
    use ckpt_files::*;
    let ops = [k14_any_op(), k14_any_op()];
    let text = ModelText { ops, args_ok: kani::any(), parse_ok: kani::any() };
    let inv = ToolInvocation { args: text };
    let r = files_for_apply_patch(&inv);
    match &r {
        Ok(Some(files)) => {
            assert!(text.args_ok && text.parse_ok, "a checkpoint file list is produced for arguments / a patch that do not parse");
            let mut named = [false; 4];
            let mut i = 0;
            while i < 2 {
                match ops[i] {
                    PatchOp::AddFile { path, .. } => named[path.0 as usize] = true,
                    PatchOp::DeleteFile { path } => named[path.0 as usize] = true,
                    PatchOp::UpdateFile { path, moved_to, .. } => {
                        named[path.0 as usize] = true;
                        if let Some(t) = moved_to {
                            named[t.0 as usize] = true;
                        }
                    }
                }
                i += 1;
            }
            let mut covered = [false; 4];
            let mut k = 0;
            while k < 6 {
                if k < files.len() {
                    assert!(files[k].0 < 4 && named[files[k].0 as usize], "the automatic checkpoint covers a file the patch does not name");
                    covered[files[k].0 as usize] = true;
                }
                k += 1;
            }
            let mut p = 0;
            while p < 4 {
                assert!(!named[p] || covered[p], "the automatic checkpoint of an apply_patch call does not cover a file the patch can change (a move target?)");
                p += 1;
            }
            kani::cover!(named[0] && named[1] && named[2], "a patch naming three files");
        }
        Ok(None) => assert!(false, "apply_patch is not treated as a file-editing tool (no automatic checkpoint)"),
        Err(_) => assert!(!(text.args_ok && text.parse_ok), "no checkpoint file list for a well-formed apply_patch call"),
    }
    core::mem::forget(r);
}
