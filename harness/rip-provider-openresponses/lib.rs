// Kani harnesses mounted into crates/rip-provider-openresponses/src/lib.rs (cfg(kani) only).
#![allow(unused_imports, dead_code)]
use super::*;
include!("/verif/harness/common.rs");

fn stub_uuid_v4() -> Uuid {
    Uuid::from_bytes([7u8; 16])
}
fn stub_now_ms() -> u64 {
    kani::any()
}
fn stub_to_string<T: core::fmt::Display + ?Sized>(_t: &T) -> String {
    String::new()
}

// C15(c) + C01: one provider_event frame per parsed server-sent event (Done / InvalidJson / Event), carrying the
// raw payload unchanged, numbered contiguously from the mapper's position; no derived text delta unless the event
// is an output_text delta. Shape = parsed-event kind; symbolic: the mapper's start seq, the two raw payload bytes.
macro_rules! c15_mapper {
    ($name:ident, $kind:expr, $is_event:expr) => {
        #[kani::proof]
        #[kani::unwind(6)]
        #[kani::stub(std::fmt::format, stub_fmt_format)]
        #[kani::stub(uuid::Uuid::new_v4, stub_uuid_v4)]
        #[kani::stub(now_ms, stub_now_ms)]
        #[kani::stub(alloc::string::ToString::to_string, stub_to_string)]
        fn $name() {
            let start: u64 = kani::any();
            kani::assume(start < u64::MAX - 2);
            let b0: u8 = kani::any();
            let b1: u8 = kani::any();
            kani::assume(b0 < 128 && b1 < 128);
            let mut raw = String::with_capacity(2);
            raw.push(b0 as char);
            raw.push(b1 as char);
            let parsed = ParsedEvent {
                kind: $kind,
                event: None,
                raw,
                data: None,
                errors: Vec::new(),
                response_errors: Vec::new(),
            };
            let mut mapper = EventFrameMapper { session_id: String::new(), seq: start };
            let frames = mapper.map(&parsed);
            assert!(frames.len() == 1, "a parsed event without text delta must map to exactly one frame");
            assert!(frames[0].seq == start, "provider frame does not continue the numbering");
            assert!(mapper.seq == start + 1, "mapper position did not advance by the number of frames");
            match &frames[0].kind {
                EventKind::ProviderEvent { status, raw, data, .. } => {
                    if $is_event {
                        assert!(*status == ProviderEventStatus::Event && raw.is_none() && data.is_none());
                    } else {
                        let r = raw.as_ref().expect("raw payload carried");
                        assert!(r.len() == 2 && r.as_bytes()[0] == b0 && r.as_bytes()[1] == b1, "raw payload altered");
                        assert!(data.is_none());
                        if matches!($kind, ParsedEventKind::Done) {
                            assert!(*status == ProviderEventStatus::Done, "terminal marker not reported as done");
                        } else {
                            assert!(*status == ProviderEventStatus::InvalidJson, "invalid JSON payload not reported as such");
                        }
                    }
                }
                _ => assert!(false, "first mapped frame is not a provider_event"),
            }
            kani::cover!(true, "decided");
            core::mem::forget(frames);
            core::mem::forget(parsed);
            core::mem::forget(mapper);
        }
    };
}
c15_mapper!(c15_mapper_done, ParsedEventKind::Done, false);
c15_mapper!(c15_mapper_invalid_json, ParsedEventKind::InvalidJson, false);
c15_mapper!(c15_mapper_event_nodata, ParsedEventKind::Event, true);

#[kani::proof]
fn c00_setup_probe() {
    let x: u8 = kani::any();
    assert!(x as u16 <= 255);
}
