// Kani harnesses mounted into crates/rip-provider-openresponses/src/lib.rs (cfg(kani) only).
#![allow(unused_imports, dead_code)]
use super::*;
