// intentionally empty: stands in for a slice-based harness family that is not selected for this run
