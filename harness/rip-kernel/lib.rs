// Kani harnesses mounted into crates/rip-kernel/src/lib.rs (cfg(kani) only).
#![allow(unused_imports, dead_code)]
use super::*;
include!("/verif/harness/common.rs");

fn stub_uuid_v4() -> Uuid {
    Uuid::from_bytes([7u8; 16])
}
fn stub_now_ms() -> u64 {
    kani::any()
}
// every registered hook set is abstracted by its outcome: at each hook point the engine may continue or abort
fn stub_hook_run(_this: &HookEngine, _ctx: &HookContext) -> HookOutcome {
    if kani::any() {
        HookOutcome::Continue
    } else {
        HookOutcome::Abort { reason: String::new() }
    }
}
fn stub_to_string<T: core::fmt::Display + ?Sized>(_t: &T) -> String {
    String::new()
}

// C01 / C07 (kernel session state machine), one inductive step per stage (stage is the shape; start seq, clock
// and the hook outcome are symbolic). Step facts asserted on the real `next_event`:
//   (a) an emitted frame carries the pre-state seq and the counter advances by exactly one;
//   (b) the machine is in stage Done afterwards  <=>  the emitted frame is session_ended;
//   (c) from Done nothing is emitted and the state is unchanged;  (d) from any other stage a frame IS emitted;
//   (e) the stage strictly advances (Start < Output < End < Done);  (f) session_started only from stage Start.
// By induction over calls: seqs are contiguous from the start seq, exactly one session_ended is emitted, it is the
// last frame, and the stream begins with session_started unless the first hook aborts. A multi-step harness was
// measured not to finish (300 s): merged stages make the dropped frame's variant symbolic (drop glue of all variants).
fn stage_rank(s: Stage) -> u8 {
    match s {
        Stage::Start => 0,
        Stage::Output => 1,
        Stage::End => 2,
        Stage::Done => 3,
    }
}

macro_rules! c01_kernel_step {
    ($name:ident, $stage:expr) => {
        #[kani::proof]
        #[kani::unwind(8)]
        #[kani::stub(std::fmt::format, stub_fmt_format)]
        #[kani::stub(uuid::Uuid::new_v4, stub_uuid_v4)]
        #[kani::stub(now_ms, stub_now_ms)]
        #[kani::stub(HookEngine::run, stub_hook_run)]
        #[kani::stub(alloc::string::ToString::to_string, stub_to_string)]
        fn $name() {
            let pre_seq: u64 = kani::any();
            kani::assume(pre_seq < u64::MAX);
            let pre_stage: Stage = $stage;
            let mut s = Session {
                id: String::new(),
                input: String::new(),
                seq: pre_seq,
                stage: pre_stage,
                hooks: Arc::new(HookEngine::new()),
            };
            let out = s.next_event();
            let post_stage = s.stage;
            match out {
                Some(e) => {
                    assert!(pre_stage != Stage::Done, "kernel session emitted a frame after it was done");
                    assert!(e.seq == pre_seq, "kernel session frame does not carry the current seq");
                    assert!(s.seq == pre_seq + 1, "kernel session seq did not advance by exactly one");
                    let is_end = matches!(e.kind, EventKind::SessionEnded { .. });
                    let is_start = matches!(e.kind, EventKind::SessionStarted { .. });
                    assert!(is_end == (post_stage == Stage::Done), "session_ended emitted without finishing (or finished without session_ended)");
                    assert!(!is_start || pre_stage == Stage::Start, "session_started emitted outside the start stage");
                    assert!(stage_rank(post_stage) > stage_rank(pre_stage), "kernel session stage did not advance");
                    core::mem::forget(e);
                }
                None => {
                    assert!(pre_stage == Stage::Done, "kernel session emitted nothing before it was done");
                    assert!(s.seq == pre_seq && post_stage == Stage::Done, "done session changed state");
                }
            }
            kani::cover!(true, "step decided");
            core::mem::forget(s);
        }
    };
}
c01_kernel_step!(c01_kernel_step_start, Stage::Start);
c01_kernel_step!(c01_kernel_step_output, Stage::Output);
c01_kernel_step!(c01_kernel_step_end, Stage::End);
c01_kernel_step!(c01_kernel_step_done, Stage::Done);

#[kani::proof]
fn c00_setup_probe() {
    let x: u8 = kani::any();
    assert!(x as u16 <= 255);
}


// vacuity twin (thorough tier)
#[kani::proof]
#[kani::unwind(8)]
#[kani::stub(std::fmt::format, stub_fmt_format)]
#[kani::stub(uuid::Uuid::new_v4, stub_uuid_v4)]
#[kani::stub(now_ms, stub_now_ms)]
#[kani::stub(HookEngine::run, stub_hook_run)]
#[kani::stub(alloc::string::ToString::to_string, stub_to_string)]
fn c01tx_kernel_step_twin() {
    let mut s = Session { id: String::new(), input: String::new(), seq: 3, stage: Stage::Output, hooks: Arc::new(HookEngine::new()) };
    let out = s.next_event();
    kani::cover!(out.is_some(), "frame emitted");
    core::mem::forget(out);
    core::mem::forget(s);
    assert!(false, "vacuity-witness");
}
