// C15 harness over a source slice, included from harness/rip-provider-openresponses/lib.rs when VERIF_SLICE_C15_SSE selects it.
// The body of SseDecoder::push (gen/slice_sse_push.py, verbatim) over a MODEL STRING KIT: `String` (also standing for `&str` values) is
// an array of at most SCAP bytes with the std operations the text uses (push_str, split + peekable, ends_with, starts_with,
// strip_prefix, trim / trim_start / trim_end_matches, join, to_string, is_empty). std's own implementations of these do not finish
// under CBMC on symbolic text (measured: str::trim, split, SseDecoder::push with 4 symbolic bytes > 600-900 s). The kit is validated
// natively against std (harness/native/sse_kit_check.rs, run by vcheck before the solver: every string of <= 6 bytes over the
// harness alphabet, every operation). 2-safety: a text delivered whole and the same text split at ANY point give the same events
// (count, order, payload, event name) and leave the decoder in the same state.
pub mod sse_model {
    #![allow(unused)]
    pub const SCAP: usize = 12;
    pub const VCAP: usize = 4;
    #[derive(Clone, Copy, Debug)]
    pub struct String {
        pub b: [u8; SCAP],
        pub len: usize,
    }
    impl Default for String {
        fn default() -> Self {
            String::new()
        }
    }
    fn is_ws(c: u8) -> bool {
        // char::is_whitespace restricted to ASCII (the bound: ASCII texts)
        c == b' ' || (c >= 0x09 && c <= 0x0d)
    }
    impl String {
        pub fn new() -> String {
            String { b: [0; SCAP], len: 0 }
        }
        pub fn from_bytes(s: &[u8]) -> String {
            let mut r = String::new();
            let mut i = 0;
            while i < SCAP {
                if i < s.len() {
                    r.b[i] = s[i];
                }
                i += 1;
            }
            assert!(s.len() <= SCAP, "MODEL: string capacity exceeded");
            r.len = s.len();
            r
        }
        pub fn eq(&self, o: &String) -> bool {
            if self.len != o.len {
                return false;
            }
            let mut same = true;
            let mut i = 0;
            while i < SCAP {
                if i < self.len && self.b[i] != o.b[i] {
                    same = false;
                }
                i += 1;
            }
            same
        }
        fn sub(&self, from: usize, to: usize) -> String {
            // bytes [from, to)
            let mut r = String::new();
            let mut i = 0;
            while i < SCAP {
                if i + from < to && i + from < SCAP {
                    r.b[i] = self.b[i + from];
                }
                i += 1;
            }
            r.len = if to > from { to - from } else { 0 };
            r
        }
        pub fn push_str(&mut self, o: &String) {
            assert!(self.len + o.len <= SCAP, "MODEL: string capacity exceeded");
            let mut i = 0;
            while i < SCAP {
                if i < o.len {
                    self.b[self.len + i] = o.b[i];
                }
                i += 1;
            }
            self.len += o.len;
        }
        pub fn is_empty(&self) -> bool {
            self.len == 0
        }
        pub fn to_string(&self) -> String {
            *self
        }
        pub fn ends_with(&self, c: char) -> bool {
            self.len > 0 && self.b[self.len - 1] == c as u8
        }
        pub fn starts_with(&self, c: char) -> bool {
            self.len > 0 && self.b[0] == c as u8
        }
        pub fn strip_prefix(&self, p: &str) -> Option<String> {
            let pb = p.as_bytes();
            if pb.len() > self.len {
                return None;
            }
            let mut i = 0;
            while i < pb.len() {
                if self.b[i] != pb[i] {
                    return None;
                }
                i += 1;
            }
            Some(self.sub(pb.len(), self.len))
        }
        pub fn trim_end_matches(&self, c: char) -> String {
            let mut end = self.len;
            let mut i = 0;
            while i < SCAP {
                if end > 0 && self.b[end - 1] == c as u8 {
                    end -= 1;
                }
                i += 1;
            }
            self.sub(0, end)
        }
        pub fn trim_start(&self) -> String {
            let mut start = 0;
            let mut i = 0;
            while i < SCAP {
                if start < self.len && is_ws(self.b[start]) {
                    start += 1;
                }
                i += 1;
            }
            self.sub(start, self.len)
        }
        pub fn trim_end(&self) -> String {
            let mut end = self.len;
            let mut i = 0;
            while i < SCAP {
                if end > 0 && is_ws(self.b[end - 1]) {
                    end -= 1;
                }
                i += 1;
            }
            self.sub(0, end)
        }
        pub fn trim(&self) -> String {
            self.trim_start().trim_end()
        }
        // str::split(char): the segments between occurrences of c; always at least one (possibly empty) segment
        pub fn split(&self, c: char) -> Split {
            Split { s: *self, pos: 0, done: false, c: c as u8 }
        }
        pub fn clone(&self) -> String {
            *self
        }
    }
    pub struct Split {
        s: String,
        pos: usize,
        done: bool,
        c: u8,
    }
    impl Iterator for Split {
        type Item = String;
        fn next(&mut self) -> Option<String> {
            if self.done {
                return None;
            }
            let mut end = self.pos;
            let mut found = false;
            let mut i = 0;
            while i < SCAP {
                if !found && end < self.s.len {
                    if self.s.b[end] == self.c {
                        found = true;
                    } else {
                        end += 1;
                    }
                }
                i += 1;
            }
            let seg = self.s.sub(self.pos, end);
            if found {
                self.pos = end + 1;
            } else {
                self.done = true;
            }
            Some(seg)
        }
    }
    #[derive(Clone, Copy)]
    pub struct Vec<T: Copy> {
        pub d: [Option<T>; VCAP],
        pub len: usize,
    }
    impl<T: Copy> Vec<T> {
        pub fn new() -> Self {
            Vec { d: [None; VCAP], len: 0 }
        }
        pub fn push(&mut self, v: T) {
            assert!(self.len < VCAP, "MODEL: Vec capacity exceeded");
            self.d[self.len] = Some(v);
            self.len += 1;
        }
        pub fn is_empty(&self) -> bool {
            self.len == 0
        }
        pub fn clear(&mut self) {
            self.len = 0;
            self.d = [None; VCAP];
        }
        pub fn at(&self, i: usize) -> T {
            match self.d[i] {
                Some(v) => v,
                None => panic!("MODEL: hole in Vec"),
            }
        }
    }
    impl Vec<String> {
        pub fn join(&self, sep: &str) -> String {
            let sp = String::from_bytes(sep.as_bytes());
            let mut r = String::new();
            let mut i = 0;
            while i < VCAP {
                if i < self.len {
                    if i > 0 {
                        r.push_str(&sp);
                    }
                    r.push_str(&self.at(i));
                }
                i += 1;
            }
            r
        }
    }
    #[derive(Clone, Copy)]
    pub struct ParsedEvent {
        pub raw: String,
        pub event: Option<String>,
    }
    pub struct SseDecoder {
        pub buffer: String,
        pub current_event: Option<String>,
        pub current_data: Vec<String>,
    }
    impl SseDecoder {
        // model of parse_event: the payload and the event name in force are what every ParsedEvent kind carries
        fn parse_event(&self, raw: String) -> ParsedEvent {
            ParsedEvent { raw, event: self.current_event.clone() }
        }
    }
    include!("/verif/harness/gen/sse_push_slice.rs");
}

#[cfg(kani)]
fn k15_opt_eq(a: &Option<sse_model::String>, b: &Option<sse_model::String>) -> bool {
    match (a, b) {
        (None, None) => true,
        (Some(x), Some(y)) => x.eq(y),
        _ => false,
    }
}

#[cfg(kani)]
macro_rules! c15_sse_split {
    ($name:ident, $prefix:expr, $n:expr, $k:expr, $unwind:expr) => {
        #[kani::proof]
        #[kani::unwind($unwind)]
        fn $name() {
            use sse_model::*;
            let prefix: &[u8] = $prefix;
            let mut text = [0u8; $n];
            let mut i = 0;
            while i < $n {
                if i < prefix.len() {
                    text[i] = prefix[i];
                } else {
                    let c: u8 = kani::any();
                    kani::assume(c == b'\n' || c == b'\r' || c == b' ' || c == b':' || c == b'x');
                    text[i] = c;
                }
                i += 1;
            }
            let k: usize = $k; // the split point is a shape; the bytes are the solver's
            let mk = || SseDecoder { buffer: String::new(), current_event: None, current_data: Vec::new() };
            // whole
            let mut a = mk();
            let ea = a.push(&String::from_bytes(&text));
            // split after k bytes
            let mut b = mk();
            let e1 = b.push(&String::from_bytes(&text[..k]));
            let e2 = b.push(&String::from_bytes(&text[k..]));
            assert!(ea.len == e1.len + e2.len, "the number of server-sent events depends on how the network split the bytes");
            let mut j = 0;
            while j < VCAP {
                if j < ea.len {
                    let x = ea.at(j);
                    let y = if j < e1.len { e1.at(j) } else { e2.at(j - e1.len) };
                    assert!(x.raw.eq(&y.raw), "an event's payload depends on how the network split the bytes");
                    assert!(k15_opt_eq(&x.event, &y.event), "an event's name depends on how the network split the bytes");
                }
                j += 1;
            }
            assert!(a.buffer.eq(&b.buffer), "the pending tail depends on how the network split the bytes");
            assert!(k15_opt_eq(&a.current_event, &b.current_event), "the pending event name depends on how the network split the bytes");
            assert!(a.current_data.len == b.current_data.len, "the pending data lines depend on how the network split the bytes");
            j = 0;
            while j < VCAP {
                if j < a.current_data.len {
                    assert!(a.current_data.at(j).eq(&b.current_data.at(j)), "a pending data line depends on how the network split the bytes");
                }
                j += 1;
            }
            kani::cover!(ea.len == 1 && ea.at(0).raw.len >= 2, "an event with a payload of two or more bytes is dispatched");
            kani::cover!(e1.len == 0 && e2.len == 1, "the split falls inside the event");
        }
    };
}
#[cfg(kani)]
c15_sse_split!(c15_sse_split_data4_k7, b"data:", 9, 7, 14);
#[cfg(kani)]
c15_sse_split!(c15_sse_split_data4_k5, b"data:", 9, 5, 14);
