// C04 / C08 harness over source slices, included from harness/ripd/continuities.rs when VERIF_SLICE_C04 selects it.
// "The context compiled for a run ... returns exactly the answer determined by the truth log, whether the cache files are present,
// missing, stale ..." -- for the INPUT of context compilation: the whole text of load_context_compile_input_recent_messages_v1 and of
// the two cut-point resolvers (gen/slice_compile_input.py) runs over a model cache layer whose bounded tail scan shows ANY
// non-decreasing sequence of windows (suffixes of the messages+runs sidecar, `complete` exactly when the whole sidecar fits); the
// recent-message window (the slice of select_recent_messages, gen/slice_select_recent.py) computed from what the function returns is
// compared with the window computed from the truth history. RECENT_MESSAGES_V1_LIMIT is shadowed by 2 (the product constant is
// 16: the seed that slipped `<= head_seq` for `<= from_seq` needs a window with >= LIMIT messages of which < LIMIT lie at or before
// the cut -- 17+ frames with the real constant, 3 with the model constant; the function's logic is parametric in it).
mod compile_input {
    #![allow(unused)]
    pub const RECENT_MESSAGES_V1_LIMIT: usize = 2;
    pub const HN: usize = 4; // truth history length
    pub const ECAP: usize = 4;
    macro_rules! format {
        ($($t:tt)*) => {
            String::new()
        };
    }
    #[derive(Clone)]
    pub enum EventKind {
        ContinuityMessageAppended { actor_id: String, origin: String, content: String },
        ContinuityRunEnded { run_session_id: String, message_id: String },
        Other,
    }
    #[derive(Clone)]
    pub struct Event {
        pub id: String,
        pub seq: u64,
        pub kind: EventKind,
    }
    pub fn blank_event() -> Event {
        Event { id: String::new(), seq: 0, kind: EventKind::Other }
    }
    #[derive(Clone, PartialEq, Debug, Default)]
    pub struct SelectedMessage {
        pub seq: u64,
        pub event_id: String,
        pub actor_id: String,
        pub origin: String,
        pub content: String,
    }
    // std's Vec as far as the text uses it: contiguous storage, derefs to a slice (iter / last / get / position / reverse come
    // from the slice)
    pub struct Vec<T: Default> {
        pub d: [T; ECAP],
        pub len: usize,
    }
    impl<T: Default> Vec<T> {
        pub fn new() -> Self {
            Vec { d: core::array::from_fn(|_| T::default()), len: 0 }
        }
        pub fn push(&mut self, v: T) {
            assert!(self.len < ECAP, "MODEL: Vec capacity exceeded");
            self.d[self.len] = v;
            self.len += 1;
        }
    }
    impl<T: Default> core::ops::Deref for Vec<T> {
        type Target = [T];
        fn deref(&self) -> &[T] {
            &self.d[..self.len]
        }
    }
    impl<T: Default> core::ops::DerefMut for Vec<T> {
        fn deref_mut(&mut self) -> &mut [T] {
            &mut self.d[..self.len]
        }
    }
    impl<'a, T: Default> IntoIterator for &'a Vec<T> {
        type Item = &'a T;
        type IntoIter = core::slice::Iter<'a, T>;
        fn into_iter(self) -> core::slice::Iter<'a, T> {
            self.d[..self.len].iter()
        }
    }
    impl Default for Event {
        fn default() -> Event {
            blank_event()
        }
    }
    pub struct ModelErr;
    pub struct Tail {
        pub events: Vec<Event>,
        pub complete: bool,
    }
    pub struct Window {
        pub events: Vec<Event>,
        pub from_seq: u64,
        pub from_message_id: Option<String>,
    }
    pub struct ContextCompileInput {
        pub continuity_events: Vec<Event>,
        pub from_seq: u64,
        pub from_message_id: Option<String>,
    }
    pub struct World {
        pub truth: [Event; HN],
        pub scans: u32,
        pub last_window: usize,
        pub last_seq_known: bool,
        pub replays: u32,
    }
    pub struct StreamCache(pub *mut World);
    impl StreamCache {
        // the messages+runs sidecar holds the message / run frames of the thread; a bounded tail scan shows a suffix of it
        pub fn scan_tail_messages_runs_v1(&self, _id: &str, _max_events: usize, _tail_bytes: usize) -> Result<Option<Tail>, ModelErr> {
            let w = unsafe { &mut *self.0 };
            w.scans += 1;
            // the first window shows ANY suffix; the second shows the whole sidecar (bound: two windows)
            let win: usize = if w.scans == 1 { kani::any() } else { HN };
            kani::assume(win >= w.last_window && win <= HN); // a larger byte window never shows fewer frames
            w.last_window = win;
            let mut total = 0;
            let mut i = 0;
            while i < HN {
                if !matches!(w.truth[i].kind, EventKind::Other) {
                    total += 1;
                }
                i += 1;
            }
            let skip = if total > win { total - win } else { 0 };
            let mut events = Vec::new();
            let mut seen = 0;
            i = 0;
            while i < HN {
                if !matches!(w.truth[i].kind, EventKind::Other) {
                    if seen >= skip {
                        events.push(w.truth[i].clone());
                    }
                    seen += 1;
                }
                i += 1;
            }
            Ok(Some(Tail { events, complete: win >= total }))
        }
        pub fn try_read_last_seq(&self, _id: &str) -> Result<Option<u64>, ModelErr> {
            let w = unsafe { &*self.0 };
            if w.last_seq_known {
                Ok(Some(w.truth[HN - 1].seq))
            } else {
                Ok(None)
            }
        }
        // the seekable window index: absent (the function then falls back to the truth log)
        pub fn window_recent_messages_v1_from_message_id(&self, _id: &str, _anchor: &str, _limit: usize) -> Result<Option<Window>, ModelErr> {
            Ok(None)
        }
    }
    pub struct ContinuityStore {
        pub stream_cache: StreamCache,
    }
    impl ContinuityStore {
        pub fn replay_events(&self, _id: &str) -> Result<Vec<Event>, ModelErr> {
            let w = unsafe { &mut *self.stream_cache.0 };
            w.replays += 1;
            let mut v = Vec::new();
            let mut i = 0;
            while i < HN {
                v.push(w.truth[i].clone());
                i += 1;
            }
            Ok(v)
        }
    }
    include!("/verif/harness/gen/compile_input_slice.rs");
    include!("/verif/harness/gen/select_recent_slice.rs");
}

fn k04_s1(b: u8) -> String {
    let mut s = String::with_capacity(1);
    s.push(b as char);
    s
}

// anchor = the message at history position $anchor (shape); frame kinds, seqs, cache answers are symbolic
macro_rules! c04_compile_input {
    ($name:ident, $anchor:expr) => {
        #[kani::proof]
        #[kani::unwind(9)]
        fn $name() {
            // no glob import: Kani's stub resolver treats it as a module-level glob and `ContinuityStore` becomes ambiguous for
            // the other harnesses of this file
            use compile_input::{resolve_context_compile_cutpoint_full, select_recent_messages, Event, EventKind, StreamCache, Vec, World, HN, RECENT_MESSAGES_V1_LIMIT};
            let base: u64 = kani::any();
            kani::assume(base < 1000);
            let mk = |i: u8, forced_msg: bool| -> Event {
                let is_msg: bool = if forced_msg { true } else { kani::any() };
                Event {
                    id: lit(["a", "b", "c", "d"][i as usize]),
                    seq: base + i as u64,
                    kind: if is_msg { EventKind::ContinuityMessageAppended { actor_id: String::new(), origin: String::new(), content: lit(["0", "1", "2", "3"][i as usize]) } } else { EventKind::Other },
                }
            };
            let truth = [mk(0, $anchor == 0), mk(1, $anchor == 1), mk(2, $anchor == 2), mk(3, $anchor == 3)];
            let anchor_id: &str = ["a", "b", "c", "d"][$anchor];
            let mut world = World { truth, scans: 0, last_window: 0, last_seq_known: kani::any(), replays: 0 };
            let wp: *mut World = &mut world;
            let store = compile_input::ContinuityStore { stream_cache: StreamCache(wp) };
            let got = store.load_context_compile_input_recent_messages_v1("t", anchor_id);
            let w = unsafe { &*wp };
            // the truth answer, by the truth path's own resolver and the window function
            let truth_events = {
                let mut v = Vec::new();
                let mut i = 0;
                while i < HN {
                    v.push(w.truth[i].clone());
                    i += 1;
                }
                v
            };
            let (t_from, _) = match resolve_context_compile_cutpoint_full(&*truth_events, anchor_id) {
                Ok(x) => x,
                Err(_) => {
                    assert!(false, "MODEL: the anchor is a message of the history");
                    return;
                }
            };
            let want = select_recent_messages(&*truth_events, t_from, RECENT_MESSAGES_V1_LIMIT);
            match got {
                Ok(input) => {
                    let have = select_recent_messages(&*input.continuity_events, input.from_seq, RECENT_MESSAGES_V1_LIMIT);
                    assert!(have.len == want.len, "the context window compiled from the cached tail holds another number of messages than the truth log determines");
                    let mut i = 0;
                    while i < RECENT_MESSAGES_V1_LIMIT {
                        if i < want.len {
                            assert!(have.d[i].seq == want.d[i].seq && have.d[i].event_id == want.d[i].event_id && have.d[i].content == want.d[i].content,
                                    "the context window compiled from the cached tail differs from the one the truth log determines");
                        }
                        i += 1;
                    }
                    if w.last_seq_known || w.replays > 0 {
                        assert!(input.from_seq == t_from, "the cut point (from_seq) answered from the caches differs from the truth log's");
                    }
                    kani::cover!(w.replays == 0 && w.scans >= 2, "answered from a wider tail window after an insufficient one");
                    kani::cover!(w.replays == 1, "fell back to the truth log");
                    core::mem::forget(have);
                    core::mem::forget(input);
                }
                Err(e) => {
                    core::mem::forget(e);
                    assert!(false, "compile input refused although the anchor message is on the thread");
                }
            }
            core::mem::forget(want);
            core::mem::forget(truth_events);
        }
    };
}
c04_compile_input!(c04_compile_input_anchor0, 0);
c04_compile_input!(c04_compile_input_anchor1, 1);
c04_compile_input!(c04_compile_input_anchor3, 3);
c04_compile_input!(c04t_compile_input_anchor2, 2);
