// Kani harnesses mounted into crates/rip-log/src/lib.rs (cfg(kani) only).
#![allow(unused_imports, dead_code)]
use super::*;

/// An EventLog value for harnesses of other crates. Its file descriptor is never touched: every harness that
/// holds one stubs EventLog::append / replay* and leaks the log instead of dropping it.
pub fn kani_event_log() -> EventLog {
    use std::os::fd::FromRawFd;
    EventLog {
        path: PathBuf::new(),
        writer: Mutex::new(BufWriter::with_capacity(0, unsafe { File::from_raw_fd(3) })),
    }
}

/// Same, with a caller-chosen `path` (used to carry a context pointer to the EventLog::append stub).
pub fn kani_event_log_at(path: PathBuf) -> EventLog {
    use std::os::fd::FromRawFd;
    EventLog {
        path,
        writer: Mutex::new(BufWriter::with_capacity(0, unsafe { File::from_raw_fd(3) })),
    }
}
pub fn kani_event_log_path(log: &EventLog) -> &Path {
    &log.path
}

#[kani::proof]
fn c00_setup_probe() {
    let x: u8 = kani::any();
    assert!(x as u16 <= 255);
}
