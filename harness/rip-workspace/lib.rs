// Kani harnesses mounted into crates/rip-workspace/src/lib.rs (cfg(kani) only).
#![allow(unused_imports, dead_code)]
use super::*;
include!("/verif/harness/common.rs");

fn kani_workspace() -> Workspace {
    Workspace {
        root: PathBuf::from("/r"),
        checkpoints_dir: PathBuf::from("/r/.rip/checkpoints"),
    }
}

// C13 -- the patch/apply resolver: Ok(p) only for strings that are not absolute and contain no `..` segment.
macro_rules! c13_safe_join {
    ($name:ident, $len:expr, $unwind:expr) => {
        #[kani::proof]
        #[kani::unwind($unwind)]
        #[kani::stub(std::fmt::format, stub_fmt_format)]
        fn $name() {
            let b = sym_path_bytes::<$len>();
            let raw = unsafe { core::str::from_utf8_unchecked(&b) };
            let ws = kani_workspace();
            let ok = match ws.safe_join(Path::new(raw)) {
                Ok(p) => {
                    core::mem::forget(p);
                    true
                }
                Err(e) => {
                    core::mem::forget(e);
                    false
                }
            };
            let esc = path_escapes(&b);
            kani::cover!(ok, "a path is accepted");
            kani::cover!(esc, "an escaping path is generated");
            if esc {
                assert!(!ok, "workspace safe_join accepted an absolute path or a path with a `..` segment");
            }
            core::mem::forget(ws);
        }
    };
}
c13_safe_join!(c13_ws_safe_join_len2, 2, 6);
c13_safe_join!(c13_ws_safe_join_len3, 3, 7);

// C13 -- the checkpoint resolver Workspace::to_relative. A symbolic-bytes harness (2 bytes over {'.','a'}, root "/")
// FOUND the defect fixed in 675a19f (the request ".." was accepted, 349 s). On the repaired code the same harness
// no longer finishes (join + strip_prefix + the added component scan re-parse a heap path: out of memory / solver
// errors at 24 GB), so it cannot be registered. What remains is a regression guard over CONCRETE request strings
// (shape = the string; nothing symbolic): every lexical class that reaches outside the root must be refused, every
// legal request accepted. This is symbolic execution of the real function on fixed inputs -- weaker than the other
// resolver families and stated as such in the claim.
macro_rules! c13_torel_shape {
    ($name:ident, $input:expr, $escapes:expr) => {
        #[kani::proof]
        #[kani::unwind(24)]
        #[kani::stub(std::fmt::format, stub_fmt_format)]
        fn $name() {
            let ws = kani_workspace();
            let ok = match ws.to_relative(Path::new($input)) {
                Ok(p) => {
                    core::mem::forget(p);
                    true
                }
                Err(e) => {
                    core::mem::forget(e);
                    false
                }
            };
            if $escapes {
                assert!(!ok, "checkpoint path resolver accepted a path with a `..` segment");
            } else {
                assert!(ok, "checkpoint path resolver refused a legal path inside the root");
            }
            kani::cover!(true, "decided");
            core::mem::forget(ws);
        }
    };
}
c13_torel_shape!(c13_ws_torel_dotdot, "..", true);
c13_torel_shape!(c13_ws_torel_dotdot_x, "../x", true);
c13_torel_shape!(c13_ws_torel_a_dotdot_dotdot, "a/../..", true);
c13_torel_shape!(c13_ws_torel_dot_dotdot, "./..", true);
c13_torel_shape!(c13_ws_torel_abs_root_dotdot, "/r/../x", true);
c13_torel_shape!(c13_ws_torel_abs_root_a_dotdot2, "/r/a/../../x", true);
c13_torel_shape!(c13_ws_torel_abs_outside, "/x", true);
c13_torel_shape!(c13_ws_torel_rel_ok, "a/b", false);
c13_torel_shape!(c13_ws_torel_abs_ok, "/r/a", false);

#[kani::proof]
fn c00_setup_probe() {
    let x: u8 = kani::any();
    assert!(x as u16 <= 255);
}
