// Kani harnesses mounted into crates/rip-workspace/src/lib.rs (cfg(kani) only).
#![allow(unused_imports, dead_code)]
use super::*;
include!("/verif/harness/common.rs");

fn kani_workspace() -> Workspace {
    Workspace {
        root: PathBuf::from("/r"),
        checkpoints_dir: PathBuf::from("/r/.rip/checkpoints"),
    }
}

// C13 -- the patch/apply resolver: Ok(p) only for strings that are not absolute and contain no `..` segment.
macro_rules! c13_safe_join {
    ($name:ident, $len:expr, $unwind:expr) => {
        #[kani::proof]
        #[kani::unwind($unwind)]
        #[kani::stub(std::fmt::format, stub_fmt_format)]
        fn $name() {
            let b = sym_path_bytes::<$len>();
            let raw = unsafe { core::str::from_utf8_unchecked(&b) };
            let ws = kani_workspace();
            let ok = match ws.safe_join(Path::new(raw)) {
                Ok(p) => {
                    core::mem::forget(p);
                    true
                }
                Err(e) => {
                    core::mem::forget(e);
                    false
                }
            };
            let esc = path_escapes(&b);
            kani::cover!(ok, "a path is accepted");
            kani::cover!(esc, "an escaping path is generated");
            if esc {
                assert!(!ok, "workspace safe_join accepted an absolute path or a path with a `..` segment");
            }
            core::mem::forget(ws);
        }
    };
}
c13_safe_join!(c13_ws_safe_join_len2, 2, 6);
c13_safe_join!(c13_ws_safe_join_len3, 3, 7);

// C13 -- the checkpoint resolver: a RELATIVE request string is turned into a root-relative path that is recorded in
// the checkpoint and later joined onto both the checkpoint's files/ directory and the workspace root. Ok(rel) must
// therefore never contain a `..` segment (the input is relative here; absolute inputs inside the root are legal).
macro_rules! c13_to_relative {
    ($name:ident, $len:expr, $unwind:expr) => {
        #[kani::proof]
        #[kani::unwind($unwind)]
        #[kani::stub(std::fmt::format, stub_fmt_format)]
        fn $name() {
            let b = sym_path_bytes::<$len>();
            // slash-free strings only: with '/' in the alphabet the join + strip_prefix + re-parse of the heap path
            // runs out of memory (62 GB) even at 2 bytes
            let mut i = 0;
            while i < $len {
                kani::assume(b[i] != b'/');
                i += 1;
            }
            let raw = unsafe { core::str::from_utf8_unchecked(&b) };
            let ws = Workspace { root: PathBuf::from("/"), checkpoints_dir: PathBuf::new() };
            let ok = match ws.to_relative(Path::new(raw)) {
                Ok(p) => {
                    core::mem::forget(p);
                    true
                }
                Err(e) => {
                    core::mem::forget(e);
                    false
                }
            };
            let esc = path_escapes(&b);
            kani::cover!(ok, "a path is accepted");
            kani::cover!(esc, "an escaping path is generated");
            if esc {
                assert!(!ok, "checkpoint path resolver accepted a path with a `..` segment");
            }
            core::mem::forget(ws);
        }
    };
}
c13_to_relative!(c13_ws_to_relative_len2, 2, 6);

#[kani::proof]
fn c00_setup_probe() {
    let x: u8 = kani::any();
    assert!(x as u16 <= 255);
}
