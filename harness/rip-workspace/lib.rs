// Kani harnesses mounted into crates/rip-workspace/src/lib.rs (cfg(kani) only).
#![allow(unused_imports, dead_code)]
use super::*;
include!("/verif/harness/common.rs");

// slice-based family, selected per property at compile time (see harness/ripd/session.rs)
include!(env!("VERIF_SLICE_C12"));

fn kani_workspace() -> Workspace {
    Workspace {
        root: PathBuf::from("/r"),
        checkpoints_dir: PathBuf::from("/r/.rip/checkpoints"),
    }
}

// C13 -- the patch/apply resolver: Ok(p) only for strings that are not absolute and contain no `..` segment.
macro_rules! c13_safe_join {
    ($name:ident, $len:expr, $unwind:expr) => {
        #[kani::proof]
        #[kani::unwind($unwind)]
        #[kani::stub(std::fmt::format, stub_fmt_format)]
        fn $name() {
            let b = sym_path_bytes::<$len>();
            let raw = unsafe { core::str::from_utf8_unchecked(&b) };
            let ws = kani_workspace();
            let ok = match ws.safe_join(Path::new(raw)) {
                Ok(p) => {
                    core::mem::forget(p);
                    true
                }
                Err(e) => {
                    core::mem::forget(e);
                    false
                }
            };
            let esc = path_escapes(&b);
            kani::cover!(ok, "a path is accepted");
            kani::cover!(esc, "an escaping path is generated");
            if esc {
                assert!(!ok, "workspace safe_join accepted an absolute path or a path with a `..` segment");
            }
            core::mem::forget(ws);
        }
    };
}
c13_safe_join!(c13_ws_safe_join_len2, 2, 6);
c13_safe_join!(c13_ws_safe_join_len3, 3, 7);
c13_safe_join!(c13_ws_safe_join_len4, 4, 8);

// C13 -- the checkpoint resolver Workspace::to_relative. A symbolic-bytes harness (2 bytes over {'.','a'}, root "/")
// FOUND the defect fixed in 675a19f (the request ".." was accepted, 349 s). On the repaired code the same harness
// no longer finishes (join + strip_prefix + the added component scan re-parse a heap path: out of memory / solver
// errors at 24 GB), so it cannot be registered. What remains is a regression guard over CONCRETE request strings
// (shape = the string; nothing symbolic): every lexical class that reaches outside the root must be refused, every
// legal request accepted. This is symbolic execution of the real function on fixed inputs -- weaker than the other
// resolver families and stated as such in the claim.
macro_rules! c13_torel_shape {
    ($name:ident, $input:expr, $escapes:expr) => {
        #[kani::proof]
        #[kani::unwind(24)]
        #[kani::stub(std::fmt::format, stub_fmt_format)]
        fn $name() {
            let ws = kani_workspace();
            let ok = match ws.to_relative(Path::new($input)) {
                Ok(p) => {
                    core::mem::forget(p);
                    true
                }
                Err(e) => {
                    core::mem::forget(e);
                    false
                }
            };
            if $escapes {
                assert!(!ok, "checkpoint path resolver accepted a path with a `..` segment");
            } else {
                assert!(ok, "checkpoint path resolver refused a legal path inside the root");
            }
            kani::cover!(true, "decided");
            core::mem::forget(ws);
        }
    };
}
c13_torel_shape!(c13_ws_torel_dotdot, "..", true);
c13_torel_shape!(c13_ws_torel_dotdot_x, "../x", true);
c13_torel_shape!(c13_ws_torel_a_dotdot_dotdot, "a/../..", true);
c13_torel_shape!(c13_ws_torel_dot_dotdot, "./..", true);
c13_torel_shape!(c13_ws_torel_abs_root_dotdot, "/r/../x", true);
c13_torel_shape!(c13_ws_torel_abs_root_a_dotdot2, "/r/a/../../x", true);
c13_torel_shape!(c13_ws_torel_abs_outside, "/x", true);
c13_torel_shape!(c13_ws_torel_rel_ok, "a/b", false);
c13_torel_shape!(c13_ws_torel_abs_ok, "/r/a", false);

#[kani::proof]
fn c00_setup_probe() {
    let x: u8 = kani::any();
    assert!(x as u16 <= 255);
}

// ---------------------------------------------------------------------------------------------------------
// C14 (and C13 "a refused request has no side effect"): checkpoint creation over a MODEL file system.
// std::fs / Path::exists are replaced by stubs over a tiny model: one workspace file <root>/a (existence and a 1-byte
// content id symbolic), the process working directory either equal to the root or not (symbolic; when different, the
// relative name "a" denotes ANOTHER file with its own symbolic existence/content), and the checkpoint store slots
// (<checkpoint>/files/a, checkpoint.json). The request names the file either absolutely (/r/a) or relatively (a)
// (shape). Obligation from the property: the checkpoint covers the ROOT-relative path, so what it records and stores
// must be the state of <root>/a -- the file a later rewind restores -- whatever the working directory is.
// Canary: every harness of this family first asserts Vec::new() has capacity 0 (a `static mut` made Kani/CBMC
// mis-model such constants in the ripd crate; here the model state has to live in a static because the fs stubs only
// receive paths).
// ---------------------------------------------------------------------------------------------------------
struct ModelFs {
    cwd_is_root: bool,
    ws_a_exists: bool,
    ws_a_content: u8,
    cwd_a_exists: bool,
    cwd_a_content: u8,
    ck_a_written: bool,
    ck_a_content: u8,
    meta_written: bool,
    mkdirs: u32,
    writes: u32,
    removes: u32,
    fail_write_at: u32, // the n-th write fails (0 = never)
}
static mut MFS: ModelFs = ModelFs {
    cwd_is_root: true, ws_a_exists: false, ws_a_content: 0, cwd_a_exists: false, cwd_a_content: 0,
    ck_a_written: false, ck_a_content: 0, meta_written: false, mkdirs: 0, writes: 0, removes: 0, fail_write_at: 0,
};
fn mfs() -> &'static mut ModelFs {
    unsafe { &mut *core::ptr::addr_of_mut!(MFS) }
}
#[derive(Clone, Copy, PartialEq, Eq)]
enum PClass {
    WsA,      // /r/a
    CwdA,     // a   (relative: resolved against the process working directory)
    CkFileA,  // <checkpoint>/files/a
    CkMeta,   // <checkpoint>/checkpoint.json
    Other,
}
fn bytes_eq(a: &[u8], b: &[u8]) -> bool {
    if a.len() != b.len() {
        return false;
    }
    let mut i = 0;
    while i < a.len() {
        if a[i] != b[i] {
            return false;
        }
        i += 1;
    }
    true
}
fn ends_with(a: &[u8], suf: &[u8]) -> bool {
    a.len() >= suf.len() && bytes_eq(&a[a.len() - suf.len()..], suf)
}
fn classify(p: &Path) -> PClass {
    let b = p.as_os_str().as_encoded_bytes();
    if bytes_eq(b, b"/r/a") {
        PClass::WsA
    } else if bytes_eq(b, b"a") {
        PClass::CwdA
    } else if ends_with(b, b"/files/a") {
        PClass::CkFileA
    } else if ends_with(b, b"checkpoint.json") {
        PClass::CkMeta
    } else {
        PClass::Other
    }
}
fn mfs_exists(this: &Path) -> bool {
    let fs = mfs();
    match classify(this) {
        PClass::WsA => fs.ws_a_exists,
        PClass::CwdA => {
            if fs.cwd_is_root { fs.ws_a_exists } else { fs.cwd_a_exists }
        }
        PClass::CkFileA => fs.ck_a_written,
        PClass::CkMeta => fs.meta_written,
        PClass::Other => false,
    }
}
fn mfs_read<P: AsRef<Path>>(path: P) -> io::Result<Vec<u8>> {
    let fs = mfs();
    let c = match classify(path.as_ref()) {
        PClass::WsA => fs.ws_a_content,
        PClass::CwdA => {
            if fs.cwd_is_root { fs.ws_a_content } else { fs.cwd_a_content }
        }
        PClass::CkFileA => fs.ck_a_content,
        _ => 0,
    };
    let mut v = Vec::with_capacity(1);
    v.push(c);
    Ok(v)
}
fn mfs_write<P: AsRef<Path>, C: AsRef<[u8]>>(path: P, contents: C) -> io::Result<()> {
    let fs = mfs();
    fs.writes += 1;
    let b = contents.as_ref();
    match classify(path.as_ref()) {
        PClass::CkFileA => {
            fs.ck_a_written = true;
            fs.ck_a_content = if b.is_empty() { 0 } else { b[0] };
        }
        PClass::CkMeta => fs.meta_written = true,
        PClass::WsA => {
            fs.ws_a_exists = true;
            fs.ws_a_content = if b.is_empty() { 0 } else { b[0] };
        }
        PClass::CwdA => {
            if fs.cwd_is_root {
                fs.ws_a_exists = true;
                fs.ws_a_content = if b.is_empty() { 0 } else { b[0] };
            } else {
                fs.cwd_a_exists = true;
                fs.cwd_a_content = if b.is_empty() { 0 } else { b[0] };
            }
        }
        PClass::Other => {}
    }
    Ok(())
}
fn mfs_create_dir_all<P: AsRef<Path>>(_path: P) -> io::Result<()> {
    mfs().mkdirs += 1;
    Ok(())
}
fn stub_uuid_v4() -> Uuid {
    Uuid::from_bytes([7u8; 16])
}
fn stub_now_ms() -> u64 {
    kani::any()
}
fn stub_hash_bytes(_b: &[u8]) -> String {
    String::new()
}
fn stub_to_string<T: core::fmt::Display + ?Sized>(_t: &T) -> String {
    String::new()
}
fn stub_to_vec_pretty<T: ?Sized + serde::Serialize>(_v: &T) -> serde_json::Result<Vec<u8>> {
    Ok(Vec::new())
}

macro_rules! c14_create_checkpoint {
    ($name:ident, $request:expr) => {
        #[kani::proof]
        #[kani::unwind(24)]
        #[kani::stub(std::fmt::format, stub_fmt_format)]
        #[kani::stub(alloc::string::ToString::to_string, stub_to_string)]
        #[kani::stub(uuid::Uuid::new_v4, stub_uuid_v4)]
        #[kani::stub(now_ms, stub_now_ms)]
        #[kani::stub(hash_bytes, stub_hash_bytes)]
        #[kani::stub(serde_json::to_vec_pretty, stub_to_vec_pretty)]
        #[kani::stub(std::path::Path::exists, mfs_exists)]
        #[kani::stub(std::fs::read, mfs_read)]
        #[kani::stub(std::fs::write, mfs_write)]
        #[kani::stub(std::fs::create_dir_all, mfs_create_dir_all)]
        fn $name() {
            let canary: Vec<u8> = Vec::new();
            assert!(canary.capacity() == 0, "kani-model-canary: constant mis-modelled");
            {
                let fs = mfs();
                fs.cwd_is_root = kani::any();
                fs.ws_a_exists = kani::any();
                fs.ws_a_content = kani::any();
                fs.cwd_a_exists = kani::any();
                fs.cwd_a_content = kani::any();
            }
            let pre_exists = mfs().ws_a_exists;
            let pre_content = mfs().ws_a_content;
            let ws = kani_workspace();
            let files = [PathBuf::from($request)];
            let r = ws.create_checkpoint("s", "l", &files);
            match &r {
                Ok(cp) => {
                    assert!(cp.files.len() == 1, "checkpoint does not cover exactly the requested file");
                    assert!(cp.files[0].exists == pre_exists,
                        "checkpoint recorded the existence of a different file than the one rewind restores (working directory vs workspace root)");
                    if pre_exists {
                        assert!(mfs().ck_a_written && mfs().ck_a_content == pre_content,
                            "checkpoint stored the bytes of a different file than the one rewind restores");
                    } else {
                        assert!(!mfs().ck_a_written, "checkpoint stored bytes for a file that did not exist");
                    }
                    assert!(mfs().meta_written, "checkpoint metadata not written");
                    kani::cover!(!mfs().cwd_is_root && pre_exists, "working directory differs from the root, file exists");
                }
                Err(_) => assert!(false, "checkpoint of a file inside the root refused"),
            }
            core::mem::forget(r);
            core::mem::forget(files);
            core::mem::forget(ws);
        }
    };
}
c14_create_checkpoint!(c14_create_abs_request, "/r/a");
c14_create_checkpoint!(c14_create_rel_request, "a");

// ---- C14: rewind over the model file system --------------------------------------------------------------
// checkpoint.json is not parsed (serde is outside): serde_json::from_slice is replaced by a stub that returns the model
// checkpoint: one covered path "a" whose recorded existence E is symbolic; the stored bytes are the symbolic content id
// of <checkpoint>/files/a. The workspace file <root>/a is in an ARBITRARY later state (exists / content symbolic).
// Shape: whether the first write of the restore step fails.
struct RewindModel {
    recorded_exists: bool,
    fail_first_write: bool,
}
static mut RWM: RewindModel = RewindModel { recorded_exists: false, fail_first_write: false };
fn rwm() -> &'static mut RewindModel {
    unsafe { &mut *core::ptr::addr_of_mut!(RWM) }
}
fn stub_checkpoint_from_slice<'a, T: serde::Deserialize<'a>>(_b: &'a [u8]) -> serde_json::Result<T> {
    // only instantiated for T = Checkpoint in this crate
    assert!(core::mem::size_of::<T>() == core::mem::size_of::<Checkpoint>());
    let cp = Checkpoint {
        id: String::new(),
        session_id: String::new(),
        label: String::new(),
        created_at_ms: 0,
        files: vec![CheckpointFile { path: String::from("a"), exists: rwm().recorded_exists, sha256: None }],
    };
    let out = unsafe { core::ptr::read(&cp as *const Checkpoint as *const T) };
    core::mem::forget(cp);
    Ok(out)
}
fn mfs_write_maybe_failing<P: AsRef<Path>, C: AsRef<[u8]>>(path: P, contents: C) -> io::Result<()> {
    if rwm().fail_first_write && mfs().writes == 0 {
        mfs().writes += 1;
        return Err(io::Error::from(io::ErrorKind::Other));
    }
    mfs_write(path, contents)
}
fn mfs_remove_file<P: AsRef<Path>>(path: P) -> io::Result<()> {
    let fs = mfs();
    fs.removes += 1;
    match classify(path.as_ref()) {
        PClass::WsA => fs.ws_a_exists = false,
        PClass::CwdA => {
            if fs.cwd_is_root { fs.ws_a_exists = false } else { fs.cwd_a_exists = false }
        }
        PClass::CkFileA => fs.ck_a_written = false,
        _ => {}
    }
    Ok(())
}

macro_rules! c14_rewind {
    ($name:ident, $fail:expr) => {
        #[kani::proof]
        #[kani::unwind(24)]
        #[kani::stub(std::fmt::format, stub_fmt_format)]
        #[kani::stub(alloc::string::ToString::to_string, stub_to_string)]
        #[kani::stub(serde_json::from_slice, stub_checkpoint_from_slice)]
        #[kani::stub(std::path::Path::exists, mfs_exists)]
        #[kani::stub(std::fs::read, mfs_read)]
        #[kani::stub(std::fs::write, mfs_write_maybe_failing)]
        #[kani::stub(std::fs::remove_file, mfs_remove_file)]
        #[kani::stub(std::fs::create_dir_all, mfs_create_dir_all)]
        fn $name() {
            let canary: Vec<u8> = Vec::new();
            assert!(canary.capacity() == 0, "kani-model-canary: constant mis-modelled");
            {
                let fs = mfs();
                fs.cwd_is_root = kani::any();
                fs.ws_a_exists = kani::any();
                fs.ws_a_content = kani::any();
                fs.ck_a_written = true;
                fs.ck_a_content = kani::any();
                fs.meta_written = true;
                rwm().recorded_exists = kani::any();
                rwm().fail_first_write = $fail;
            }
            let pre_exists = mfs().ws_a_exists;
            let pre_content = mfs().ws_a_content;
            let stored = mfs().ck_a_content;
            let ws = kani_workspace();
            let ok = match ws.rewind_to_checkpoint("s", "k") {
                Ok(()) => true,
                Err(e) => {
                    core::mem::forget(e);
                    false
                }
            };
            if ok {
                if rwm().recorded_exists {
                    assert!(mfs().ws_a_exists && mfs().ws_a_content == stored, "after rewind a covered file does not have its checkpoint-time bytes");
                } else {
                    assert!(!mfs().ws_a_exists, "after rewind a covered file that did not exist at checkpoint time is still there");
                }
                assert!(!($fail && rwm().recorded_exists), "rewind reported success although restoring the file failed");
            } else {
                assert!(mfs().ws_a_exists == pre_exists && (!pre_exists || mfs().ws_a_content == pre_content),
                    "a failed rewind did not leave the workspace as it was");
                assert!($fail, "rewind failed without any injected fault");
            }
            kani::cover!(ok, "rewind succeeded");
            kani::cover!(pre_exists && !rwm().recorded_exists, "file created after the checkpoint is removed again");
            core::mem::forget(ws);
        }
    };
}
c14_rewind!(c14_rewind_nofault, false);
// NOT REGISTERED: the fault shape (first restore write fails) does not finish in 600 s -- the injected io::Error travels
// through the closure result and the undo loop, and io::Error's drop glue (bit-packed pointer, boxed dyn Error arm) is
// not folded by CBMC. "A failed rewind leaves the workspace as it was" is therefore outside the claim.
// c14_rewind!(c14_rewind_fail_first_write, true);

// C13: a refused checkpoint request has no side effect anywhere (no directory created, nothing written),
// for each escaping request shape; the legal second file of the request must not be touched either.
macro_rules! c13_refused_no_effect {
    ($name:ident, $request:expr) => {
        #[kani::proof]
        #[kani::unwind(24)]
        #[kani::stub(std::fmt::format, stub_fmt_format)]
        #[kani::stub(alloc::string::ToString::to_string, stub_to_string)]
        #[kani::stub(uuid::Uuid::new_v4, stub_uuid_v4)]
        #[kani::stub(now_ms, stub_now_ms)]
        #[kani::stub(hash_bytes, stub_hash_bytes)]
        #[kani::stub(serde_json::to_vec_pretty, stub_to_vec_pretty)]
        #[kani::stub(std::path::Path::exists, mfs_exists)]
        #[kani::stub(std::fs::read, mfs_read)]
        #[kani::stub(std::fs::write, mfs_write)]
        #[kani::stub(std::fs::create_dir_all, mfs_create_dir_all)]
        fn $name() {
            let canary: Vec<u8> = Vec::new();
            assert!(canary.capacity() == 0, "kani-model-canary: constant mis-modelled");
            {
                let fs = mfs();
                fs.cwd_is_root = kani::any();
                fs.ws_a_exists = kani::any();
                fs.ws_a_content = kani::any();
            }
            let ws = kani_workspace();
            // legal file first, escaping request second: the refusal must come before ANY effect
            let files = [PathBuf::from("/r/a"), PathBuf::from($request)];
            let ok = match ws.create_checkpoint("s", "l", &files) {
                Ok(cp) => {
                    core::mem::forget(cp);
                    true
                }
                Err(e) => {
                    core::mem::forget(e);
                    false
                }
            };
            assert!(!ok, "checkpoint of a path outside the root accepted");
            assert!(mfs().mkdirs == 0 && mfs().writes == 0, "a refused checkpoint request left something behind in the checkpoint store");
            kani::cover!(true, "decided");
            core::mem::forget(files);
            core::mem::forget(ws);
        }
    };
}
c13_refused_no_effect!(c13_ws_refused_no_effect_dotdot, "../x");
c13_refused_no_effect!(c13_ws_refused_no_effect_abs, "/r/../x");

// ---------------------------------------------------------------------------------------------------------
// C12(b): patch application is all-or-nothing, over the model file system extended with a second file <root>/b.
// Patch::parse is replaced by a stub returning the harness's operation list (the parser is string scanning: outside).
// Shape: a 2-operation sequence over {Add a, Add b, Delete a, Delete b}; the initial existence and content ids of a
// and b are symbolic. Obligation: Err => both files are exactly as before (existence and content); Ok => the files
// are in the state of the sequential application and changed_files names exactly the touched paths.
// ---------------------------------------------------------------------------------------------------------
struct ModelFs2 {
    b_exists: bool,
    b_content: u8,
}
static mut MFS2: ModelFs2 = ModelFs2 { b_exists: false, b_content: 0 };
fn mfs2() -> &'static mut ModelFs2 {
    unsafe { &mut *core::ptr::addr_of_mut!(MFS2) }
}
fn is_ws_b(p: &Path) -> bool {
    bytes_eq(p.as_os_str().as_encoded_bytes(), b"/r/b")
}
fn p_exists(this: &Path) -> bool {
    if is_ws_b(this) { mfs2().b_exists } else { mfs_exists(this) }
}
fn p_read<P: AsRef<Path>>(path: P) -> io::Result<Vec<u8>> {
    if is_ws_b(path.as_ref()) {
        let mut v = Vec::with_capacity(1);
        v.push(mfs2().b_content);
        Ok(v)
    } else {
        mfs_read(path)
    }
}
fn p_write<P: AsRef<Path>, C: AsRef<[u8]>>(path: P, contents: C) -> io::Result<()> {
    if is_ws_b(path.as_ref()) {
        let b = contents.as_ref();
        mfs().writes += 1;
        mfs2().b_exists = true;
        mfs2().b_content = if b.is_empty() { 0 } else { b[0] };
        Ok(())
    } else {
        mfs_write(path, contents)
    }
}
fn p_remove<P: AsRef<Path>>(path: P) -> io::Result<()> {
    if is_ws_b(path.as_ref()) {
        mfs().removes += 1;
        mfs2().b_exists = false;
        Ok(())
    } else {
        mfs_remove_file(path)
    }
}
#[derive(Clone, Copy, PartialEq, Eq)]
enum MOp {
    AddA,
    AddB,
    DelA,
    DelB,
}
fn lit_path(s: &'static str) -> PathBuf {
    use std::os::unix::ffi::OsStringExt;
    PathBuf::from(std::ffi::OsString::from_vec(unsafe { Vec::from_raw_parts(s.as_ptr() as *mut u8, s.len(), 0) }))
}
fn mop_to_patch_op(op: MOp, content: *mut u8) -> PatchOp {
    match op {
        MOp::AddA => PatchOp::AddFile { path: lit_path("a"), content: unsafe { String::from_raw_parts(content, 1, 0) } },
        MOp::AddB => PatchOp::AddFile { path: lit_path("b"), content: unsafe { String::from_raw_parts(content, 1, 0) } },
        MOp::DelA => PatchOp::DeleteFile { path: lit_path("a") },
        MOp::DelB => PatchOp::DeleteFile { path: lit_path("b") },
    }
}
static mut PATCH_OPS: [MOp; 2] = [MOp::AddA, MOp::AddA];
static mut PATCH_CONTENT: [u8; 2] = [0, 0];
// typed static storage for the operation list (a heap Vec<PatchOp> is read back unfolded: the paths inside then have
// symbolic lengths and Path::components unrolls to the unwind bound -- measured > 400 s)
static mut OPS_STORE: [PatchOp; 2] = [PatchOp::DeleteFile { path: PathBuf::new() }, PatchOp::DeleteFile { path: PathBuf::new() }];
fn stub_patch_parse(_input: &str) -> Result<Patch, PatchParseError> {
    let ops = unsafe { *core::ptr::addr_of!(PATCH_OPS) };
    let cp = unsafe { core::ptr::addr_of_mut!(PATCH_CONTENT) as *mut u8 };
    let store = unsafe { core::ptr::addr_of_mut!(OPS_STORE) as *mut PatchOp };
    unsafe {
        core::ptr::write(store, mop_to_patch_op(ops[0], cp));
        core::ptr::write(store.add(1), mop_to_patch_op(ops[1], cp.add(1)));
    }
    Ok(patch::verif_kani::kani_patch(unsafe { Vec::from_raw_parts(store, 2, 0) }))
}
// reference semantics of one operation on the abstract state (exists, content)
fn ref_apply(op: MOp, c: u8, a: &mut (bool, u8), b: &mut (bool, u8)) -> bool {
    match op {
        MOp::AddA => { if a.0 { return false; } *a = (true, c); true }
        MOp::AddB => { if b.0 { return false; } *b = (true, c); true }
        MOp::DelA => { if !a.0 { return false; } a.0 = false; true }
        MOp::DelB => { if !b.0 { return false; } b.0 = false; true }
    }
}

// NOT REGISTERED. Measured 3 times (400 s, 400 s, 600 s at unwind 24 / 24 / 7): apply_patch keeps the touched paths in a
// BTreeSet<PathBuf> and an undo Vec; the PathBufs read back from those heap nodes are unfolded, and every path comparison
// (Path::components on both sides) unrolls to the unwind bound. The atomicity clause of C12 stays outside.
macro_rules! c12_atomic {
    ($name:ident, $op0:expr, $op1:expr) => {
        #[kani::proof]
        #[kani::unwind(7)]
        #[kani::stub(std::fmt::format, stub_fmt_format)]
        #[kani::stub(alloc::string::ToString::to_string, stub_to_string)]
        #[kani::stub(Patch::parse, stub_patch_parse)]
        #[kani::stub(std::path::Path::exists, p_exists)]
        #[kani::stub(std::fs::read, p_read)]
        #[kani::stub(std::fs::write, p_write)]
        #[kani::stub(std::fs::remove_file, p_remove)]
        #[kani::stub(std::fs::create_dir_all, mfs_create_dir_all)]
        fn $name() {
            let canary: Vec<u8> = Vec::new();
            assert!(canary.capacity() == 0, "kani-model-canary: constant mis-modelled");
            unsafe {
                PATCH_OPS = [$op0, $op1];
                PATCH_CONTENT = [kani::any(), kani::any()];
            }
            kani::assume(unsafe { PATCH_CONTENT[0] } < 128 && unsafe { PATCH_CONTENT[1] } < 128);
            mfs().ws_a_exists = kani::any();
            mfs().ws_a_content = kani::any();
            mfs2().b_exists = kani::any();
            mfs2().b_content = kani::any();
            let a0 = (mfs().ws_a_exists, mfs().ws_a_content);
            let b0 = (mfs2().b_exists, mfs2().b_content);
            // reference
            let mut ra = a0;
            let mut rb = b0;
            let c = unsafe { PATCH_CONTENT };
            let ok_ref = ref_apply($op0, c[0], &mut ra, &mut rb) && ref_apply($op1, c[1], &mut ra, &mut rb);

            let ws = kani_workspace();
            let ok = match ws.apply_patch("p") {
                Ok(res) => {
                    core::mem::forget(res);
                    true
                }
                Err(e) => {
                    core::mem::forget(e);
                    false
                }
            };
            let a1 = (mfs().ws_a_exists, mfs().ws_a_content);
            let b1 = (mfs2().b_exists, mfs2().b_content);
            assert!(ok == ok_ref, "patch accepted / refused differently from its sequential meaning");
            if ok {
                assert!(a1.0 == ra.0 && (!ra.0 || a1.1 == ra.1) && b1.0 == rb.0 && (!rb.0 || b1.1 == rb.1),
                    "successful patch did not leave the workspace in the state of applying its operations in order");
            } else {
                assert!(a1.0 == a0.0 && (!a0.0 || a1.1 == a0.1) && b1.0 == b0.0 && (!b0.0 || b1.1 == b0.1),
                    "failed patch left a change behind (not all-or-nothing)");
            }
            kani::cover!(ok, "patch applied");
            kani::cover!(!ok && mfs().writes + mfs().removes > 0, "patch failed after a mutation that had to be undone");
            core::mem::forget(ws);
        }
    };
}
// (not registered, see note) c12_atomic!(c12_atomic_addb_dela, MOp::AddB, MOp::DelA);
// (not registered, see note) c12_atomic!(c12_atomic_dela_adda, MOp::DelA, MOp::AddA);
// (not registered, see note) c12_atomic!(c12_atomic_adda_adda, MOp::AddA, MOp::AddA);
// (not registered, see note) c12_atomic!(c12_atomic_dela_delb, MOp::DelA, MOp::DelB);

// vacuity twin (thorough tier) for the model-file-system families
#[kani::proof]
#[kani::unwind(24)]
#[kani::stub(std::fmt::format, stub_fmt_format)]
#[kani::stub(alloc::string::ToString::to_string, stub_to_string)]
#[kani::stub(uuid::Uuid::new_v4, stub_uuid_v4)]
#[kani::stub(now_ms, stub_now_ms)]
#[kani::stub(hash_bytes, stub_hash_bytes)]
#[kani::stub(serde_json::to_vec_pretty, stub_to_vec_pretty)]
#[kani::stub(std::path::Path::exists, mfs_exists)]
#[kani::stub(std::fs::read, mfs_read)]
#[kani::stub(std::fs::write, mfs_write)]
#[kani::stub(std::fs::create_dir_all, mfs_create_dir_all)]
fn c14tx_create_twin() {
    mfs().ws_a_exists = kani::any();
    mfs().ws_a_content = kani::any();
    let ws = kani_workspace();
    let files = [PathBuf::from("/r/a")];
    let r = ws.create_checkpoint("s", "l", &files);
    kani::cover!(r.is_ok(), "checkpoint created");
    core::mem::forget(r);
    core::mem::forget(files);
    core::mem::forget(ws);
    assert!(false, "vacuity-witness");
}
