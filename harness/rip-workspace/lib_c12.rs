// C12 harnesses over source slices, included from harness/rip-workspace/lib.rs when VERIF_SLICE_C12 selects them
// (module rip_workspace::verif_kani).
//
// (1) `apply_patch_model`: the text of Workspace::apply_patch after its parse statement and the text of Workspace::revert_paths
//     (gen/slice_apply_patch.py, verbatim) run over a MODEL FILE SYSTEM with fault injection. The names the text uses --
//     fs, io, BTreeSet, Vec, PathBuf, String, PatchOp, patch::apply_hunks_to_text, normalize_rel, format! -- are shadowed by the
//     models of this module. A patch of 1..3 operations of ANY kind (add / delete / update / update+move) over 3 workspace
//     paths with ANY initial state, any of the operations refused for its own reasons (file exists / missing / not UTF-8 /
//     hunk context missing / path refused by safe_join), and at most ONE failing file-system call at ANY point of the forward
//     phase (a failing write may leave the file clobbered): the call succeeds exactly when the reference interpretation of
//     the operations succeeds, then the files equal the reference result and `changed_files` are exactly the named paths,
//     sorted, once each; otherwise every file has its initial state.
// (2) `hunk_loop_model`: the hunk loop of apply_hunks_to_text with its forward cursor and the real find_subslice_from
//     (verbatim) over model line vectors (a line is one byte over {a,b}).
mod apply_patch_model {
    #![allow(unused)]
    pub const NP: usize = 3; // workspace paths
    pub const CAP: usize = 8;
    pub struct World {
        pub files: [Option<u8>; NP], // None = absent, Some(content id)
        pub fs_calls: u8,            // forward-phase file-system calls made so far
        pub fault_at: u8,            // the fs call with this ordinal fails (forward phase only); 0xff = none
        pub fault_fired: bool,
        pub clobber: Option<u8>,     // what a FAILED write leaves in the file (None = unchanged)
        pub reverting: bool,
        pub revert_calls: u8,
        pub mutations_after_revert: u8,
    }
    // ---- io -------------------------------------------------------------------------------------------
    pub mod io {
        #[derive(Clone, Copy, PartialEq, Debug)]
        pub enum ErrorKind {
            InvalidData,
            AlreadyExists,
            NotFound,
            InvalidInput,
            Other,
        }
        #[derive(Clone, Copy, Debug)]
        pub struct Error(pub ErrorKind);
        impl Error {
            pub fn new<M>(kind: ErrorKind, _msg: M) -> Error {
                Error(kind)
            }
        }
        pub type Result<T> = core::result::Result<T, Error>;
    }
    macro_rules! format {
        ($($t:tt)*) => {
            ()
        };
    }
    // ---- containers -------------------------------------------------------------------------------------
    #[derive(Clone, Copy)]
    pub struct Vec<T: Copy> {
        pub data: [Option<T>; CAP],
        pub len: usize,
    }
    impl<T: Copy> Vec<T> {
        pub fn new() -> Self {
            Vec { data: [None; CAP], len: 0 }
        }
        pub fn push(&mut self, v: T) {
            assert!(self.len < CAP, "MODEL: Vec capacity exceeded");
            self.data[self.len] = Some(v);
            self.len += 1;
        }
        pub fn get_at(&self, i: usize) -> T {
            match self.data[i] {
                Some(v) => v,
                None => panic!("MODEL: hole in Vec"),
            }
        }
        pub fn into_iter(self) -> VecIter<T> {
            VecIter { v: self, lo: 0, hi: self.len }
        }
    }
    impl<T: Copy + PartialOrd + PartialEq> Vec<T> {
        pub fn sort(&mut self) {
            // insertion sort
            let mut i = 1;
            while i < self.len {
                let mut j = i;
                while j > 0 && self.get_at(j - 1) > self.get_at(j) {
                    let a = self.data[j - 1];
                    self.data[j - 1] = self.data[j];
                    self.data[j] = a;
                    j -= 1;
                }
                i += 1;
            }
        }
        pub fn dedup(&mut self) {
            if self.len == 0 {
                return;
            }
            let mut w = 1;
            let mut r = 1;
            while r < self.len {
                if self.get_at(r) != self.get_at(w - 1) {
                    self.data[w] = self.data[r];
                    w += 1;
                }
                r += 1;
            }
            self.len = w;
        }
    }
    pub struct VecIter<T: Copy> {
        v: Vec<T>,
        lo: usize,
        hi: usize,
    }
    impl<T: Copy> Iterator for VecIter<T> {
        type Item = T;
        fn next(&mut self) -> Option<T> {
            if self.lo < self.hi {
                self.lo += 1;
                Some(self.v.get_at(self.lo - 1))
            } else {
                None
            }
        }
    }
    impl<T: Copy> DoubleEndedIterator for VecIter<T> {
        fn next_back(&mut self) -> Option<T> {
            if self.lo < self.hi {
                self.hi -= 1;
                Some(self.v.get_at(self.hi))
            } else {
                None
            }
        }
    }
    impl AsRef<[u8]> for Vec<u8> {
        fn as_ref(&self) -> &[u8] {
            // file contents are ONE byte (a content id)
            match &self.data[0] {
                Some(b) => core::slice::from_ref(b),
                None => &[],
            }
        }
    }
    impl<T: Copy> core::iter::FromIterator<T> for Vec<T> {
        fn from_iter<I: IntoIterator<Item = T>>(it: I) -> Self {
            let mut v = Vec::new();
            for x in it {
                v.push(x);
            }
            v
        }
    }
    // std's BTreeMap as far as a refactor of the undo bookkeeping might use it: insert OVERWRITES and returns the old value,
    // iteration is in ascending key order
    pub struct BTreeMap<K: Copy + PartialOrd, V: Copy>(pub Vec<(K, V)>);
    impl<K: Copy + PartialOrd, V: Copy> BTreeMap<K, V> {
        pub fn new() -> Self {
            BTreeMap(Vec::new())
        }
        pub fn contains_key(&self, k: &K) -> bool {
            let mut i = 0;
            while i < self.0.len {
                if self.0.get_at(i).0 == *k {
                    return true;
                }
                i += 1;
            }
            false
        }
        pub fn insert(&mut self, k: K, v: V) -> Option<V> {
            let mut i = 0;
            while i < self.0.len {
                let (ek, ev) = self.0.get_at(i);
                if ek == k {
                    self.0.data[i] = Some((k, v));
                    return Some(ev);
                }
                i += 1;
            }
            self.0.push((k, v));
            // keep ascending key order
            let mut j = self.0.len - 1;
            while j > 0 && self.0.get_at(j - 1).0 > self.0.get_at(j).0 {
                let a = self.0.data[j - 1];
                self.0.data[j - 1] = self.0.data[j];
                self.0.data[j] = a;
                j -= 1;
            }
            None
        }
        pub fn into_iter(self) -> VecIter<(K, V)> {
            self.0.into_iter()
        }
    }
    pub struct BTreeSet<T: Copy + PartialEq>(pub Vec<T>);
    impl<T: Copy + PartialEq> BTreeSet<T> {
        pub fn new() -> Self {
            BTreeSet(Vec::new())
        }
        pub fn insert(&mut self, v: T) -> bool {
            let mut i = 0;
            while i < self.0.len {
                if self.0.get_at(i) == v {
                    return false;
                }
                i += 1;
            }
            self.0.push(v);
            true
        }
    }
    // ---- strings: one byte ---------------------------------------------------------------------------------
    #[derive(Clone, Copy, PartialEq, PartialOrd, Debug)]
    pub struct String(pub u8);
    pub struct Utf8Err;
    impl core::fmt::Display for Utf8Err {
        fn fmt(&self, _f: &mut core::fmt::Formatter<'_>) -> core::fmt::Result {
            Ok(())
        }
    }
    pub fn content_is_utf8(c: u8) -> bool {
        c & 0x80 == 0
    }
    impl String {
        pub fn from_utf8(bytes: Vec<u8>) -> Result<String, Utf8Err> {
            let c = bytes.get_at(0);
            if content_is_utf8(c) {
                Ok(String(c))
            } else {
                Err(Utf8Err)
            }
        }
        pub fn as_bytes(&self) -> &[u8] {
            core::slice::from_ref(&self.0)
        }
    }
    // ---- paths ------------------------------------------------------------------------------------------
    // one type for the patch's relative paths and the joined absolute ones: id of the workspace file, whether safe_join
    // refuses it, and the model file system it lives in
    #[derive(Clone, Copy)]
    pub struct PathBuf {
        pub id: u8,
        pub refused: bool,
        pub w: *mut World,
    }
    impl PartialEq for PathBuf {
        fn eq(&self, o: &PathBuf) -> bool {
            self.id == o.id
        }
    }
    impl PartialOrd for PathBuf {
        fn partial_cmp(&self, o: &PathBuf) -> Option<core::cmp::Ordering> {
            self.id.partial_cmp(&o.id)
        }
    }
    pub struct Display;
    impl PathBuf {
        pub fn exists(&self) -> bool {
            let w = unsafe { &*self.w };
            w.files[self.id as usize].is_some()
        }
        pub fn display(&self) -> Display {
            Display
        }
        pub fn parent(&self) -> Option<PathBuf> {
            Some(PathBuf { id: 0xfe, refused: false, w: self.w }) // the directory: not a workspace file
        }
    }
    pub trait PathLike {
        fn pb(&self) -> PathBuf;
    }
    impl PathLike for PathBuf {
        fn pb(&self) -> PathBuf {
            *self
        }
    }
    impl PathLike for &PathBuf {
        fn pb(&self) -> PathBuf {
            **self
        }
    }
    pub fn normalize_rel(path: &PathBuf) -> String {
        String(path.id)
    }
    // ---- the model file system ---------------------------------------------------------------------------
    pub mod fs {
        use super::*;
        // does this call fail? (forward phase: the call with ordinal fault_at fails; undo phase: never -- assumption)
        fn faulty(w: &mut World) -> bool {
            if w.reverting {
                w.revert_calls += 1;
                return false;
            }
            let k = w.fs_calls;
            w.fs_calls += 1;
            if k == w.fault_at {
                w.fault_fired = true;
                true
            } else {
                false
            }
        }
        pub fn read<P: PathLike>(p: P) -> io::Result<Vec<u8>> {
            let p = p.pb();
            let w = unsafe { &mut *p.w };
            if faulty(w) {
                return Err(io::Error(io::ErrorKind::Other));
            }
            match w.files[p.id as usize] {
                Some(c) => {
                    let mut v = Vec::new();
                    v.push(c);
                    Ok(v)
                }
                None => Err(io::Error(io::ErrorKind::NotFound)),
            }
        }
        pub fn write<P: PathLike, C: AsRef<[u8]>>(p: P, c: C) -> io::Result<()> {
            let p = p.pb();
            let w = unsafe { &mut *p.w };
            if faulty(w) {
                // a failed write may leave the file clobbered (created empty / truncated / partly written)
                if let Some(g) = w.clobber {
                    w.files[p.id as usize] = Some(g);
                }
                return Err(io::Error(io::ErrorKind::Other));
            }
            let b = c.as_ref();
            assert!(b.len() == 1, "MODEL: contents are one byte");
            w.files[p.id as usize] = Some(b[0]);
            Ok(())
        }
        pub fn remove_file<P: PathLike>(p: P) -> io::Result<()> {
            let p = p.pb();
            let w = unsafe { &mut *p.w };
            if faulty(w) {
                return Err(io::Error(io::ErrorKind::Other));
            }
            if w.files[p.id as usize].is_none() {
                return Err(io::Error(io::ErrorKind::NotFound));
            }
            w.files[p.id as usize] = None;
            Ok(())
        }
        pub fn rename<P: PathLike, Q: PathLike>(a: P, b: Q) -> io::Result<()> {
            let (a, b) = (a.pb(), b.pb());
            let w = unsafe { &mut *a.w };
            if faulty(w) {
                return Err(io::Error(io::ErrorKind::Other));
            }
            match w.files[a.id as usize] {
                None => Err(io::Error(io::ErrorKind::NotFound)),
                Some(c) => {
                    w.files[a.id as usize] = None;
                    w.files[b.id as usize] = Some(c); // rename replaces an existing target
                    Ok(())
                }
            }
        }
        pub fn create_dir_all<P: PathLike>(p: P) -> io::Result<()> {
            let p = p.pb();
            let w = unsafe { &mut *p.w };
            if faulty(w) {
                return Err(io::Error(io::ErrorKind::Other));
            }
            Ok(())
        }
    }
    // ---- the patch --------------------------------------------------------------------------------------
    #[derive(Clone, Copy)]
    pub struct ModelHunks {
        pub applies: bool, // does the hunk context match the file?
        pub delta: u8,     // updated text = f(original text, hunks)
    }
    pub fn updated_content(orig: u8, h: &ModelHunks) -> u8 {
        (orig ^ h.delta) & 0x7f
    }
    pub mod patch {
        use super::*;
        pub fn apply_hunks_to_text(original: &String, hunks: &ModelHunks, _display: &PathBuf) -> io::Result<String> {
            if hunks.applies {
                Ok(String(updated_content(original.0, hunks)))
            } else {
                Err(io::Error(io::ErrorKind::InvalidData))
            }
        }
    }
    #[derive(Clone, Copy)]
    pub enum PatchOp {
        AddFile { path: PathBuf, content: String },
        DeleteFile { path: PathBuf },
        UpdateFile { path: PathBuf, moved_to: Option<PathBuf>, hunks: ModelHunks },
    }
    pub struct ModelPatch {
        pub ops: [PatchOp; 3],
        pub n: usize,
    }
    impl ModelPatch {
        pub fn ops(&self) -> &[PatchOp] {
            &self.ops[..self.n]
        }
    }
    pub struct PatchApplyResult {
        pub changed_files: Vec<String>,
    }
    pub struct ModelWorkspace {
        pub w: *mut World,
    }
    impl ModelWorkspace {
        pub fn safe_join(&self, rel: &PathBuf) -> io::Result<PathBuf> {
            if rel.refused {
                Err(io::Error(io::ErrorKind::InvalidInput))
            } else {
                Ok(*rel)
            }
        }
        fn model_enter_revert(&self) {
            let w = unsafe { &mut *self.w };
            w.reverting = true;
        }
    }
    include!("/verif/harness/gen/apply_patch_slice.rs");
}

fn k12_any_path(w: *mut apply_patch_model::World) -> apply_patch_model::PathBuf {
    let id: u8 = kani::any();
    kani::assume((id as usize) < apply_patch_model::NP);
    apply_patch_model::PathBuf { id, refused: kani::any(), w }
}

fn k12_any_op(w: *mut apply_patch_model::World) -> apply_patch_model::PatchOp {
    use apply_patch_model::*;
    let kind: u8 = kani::any();
    kani::assume(kind < 4);
    let path = k12_any_path(w);
    match kind {
        0 => {
            let c: u8 = kani::any();
            kani::assume(c < 0x80);
            PatchOp::AddFile { path, content: String(c) }
        }
        1 => PatchOp::DeleteFile { path },
        2 => PatchOp::UpdateFile { path, moved_to: None, hunks: ModelHunks { applies: kani::any(), delta: kani::any() } },
        _ => PatchOp::UpdateFile { path, moved_to: Some(k12_any_path(w)), hunks: ModelHunks { applies: kani::any(), delta: kani::any() } },
    }
}

// reference interpretation of ONE operation on a file table: Err(()) when the operation is refused
fn k12_ref_op(files: &mut [Option<u8>; 3], named: &mut [bool; 3], op: &apply_patch_model::PatchOp) -> Result<(), ()> {
    use apply_patch_model::*;
    match op {
        PatchOp::AddFile { path, content } => {
            if path.refused || files[path.id as usize].is_some() {
                return Err(());
            }
            files[path.id as usize] = Some(content.0);
            named[path.id as usize] = true;
        }
        PatchOp::DeleteFile { path } => {
            if path.refused || files[path.id as usize].is_none() {
                return Err(());
            }
            files[path.id as usize] = None;
            named[path.id as usize] = true;
        }
        PatchOp::UpdateFile { path, moved_to, hunks } => {
            if path.refused {
                return Err(());
            }
            let orig = match files[path.id as usize] {
                Some(c) => c,
                None => return Err(()),
            };
            if !content_is_utf8(orig) || !hunks.applies {
                return Err(());
            }
            let upd = updated_content(orig, hunks);
            files[path.id as usize] = Some(upd);
            named[path.id as usize] = true;
            if let Some(t) = moved_to {
                if t.refused || files[t.id as usize].is_some() {
                    return Err(());
                }
                files[path.id as usize] = None;
                files[t.id as usize] = Some(upd);
                named[t.id as usize] = true;
            }
        }
    }
    Ok(())
}

macro_rules! c12_apply {
    ($name:ident, $nops:expr, $faults:expr) => {
        #[kani::proof]
        #[kani::unwind(10)]
        fn $name() {
            use apply_patch_model::*;
            let init: [Option<u8>; 3] = [kani::any(), kani::any(), kani::any()];
            let fault_at: u8 = if $faults { kani::any() } else { 0xff };
            let mut world = World { files: init, fs_calls: 0, fault_at, fault_fired: false, clobber: kani::any(), reverting: false,
                                    revert_calls: 0, mutations_after_revert: 0 };
            let wp: *mut World = &mut world;
            let ops = [k12_any_op(wp), k12_any_op(wp), k12_any_op(wp)];
            let patch = ModelPatch { ops, n: $nops };
            // reference
            let mut rf = init;
            let mut named = [false; 3];
            let mut ref_ok = true;
            let mut i = 0;
            while i < $nops {
                if ref_ok && k12_ref_op(&mut rf, &mut named, &patch.ops[i]).is_err() {
                    ref_ok = false;
                }
                i += 1;
            }
            let ws = ModelWorkspace { w: wp };
            let got = ws.apply_patch_sliced(&patch);
            let w = unsafe { &*wp };
            match got {
                Ok(res) => {
                    assert!(!w.fault_fired, "apply_patch reports success although a file-system call failed");
                    assert!(ref_ok, "apply_patch succeeds on a patch with an operation that must be refused");
                    assert!(w.files[0] == rf[0] && w.files[1] == rf[1] && w.files[2] == rf[2],
                            "after a successful apply the workspace differs from performing the operations in order");
                    // changed_files: exactly the named paths, ascending, once each
                    let mut k = 0;
                    let mut p = 0;
                    while p < 3 {
                        if named[p] {
                            assert!(k < res.changed_files.len && res.changed_files.get_at(k) == String(p as u8),
                                    "changed_files is not exactly the set of files the patch names (sorted, once each)");
                            k += 1;
                        }
                        p += 1;
                    }
                    assert!(k == res.changed_files.len, "changed_files reports a file the patch does not name, or one twice");
                    assert!(!w.reverting, "a successful apply ran the undo phase");
                    kani::cover!(if $nops >= 2 { named[0] && named[1] } else { named[0] }, "successful patch (naming two files when it has two operations)");
                }
                Err(_) => {
                    assert!(w.fault_fired || !ref_ok, "apply_patch fails on a patch whose operations all apply (no fault injected)");
                    assert!(w.files[0] == init[0] && w.files[1] == init[1] && w.files[2] == init[2],
                            "a failed apply leaves a file changed, removed or newly created");
                    kani::cover!(if $faults { w.fault_fired && w.revert_calls > 0 } else { w.revert_calls > 1 }, "a file-system fault after a mutation was undone (no-fault shape: two undo steps)");
                    kani::cover!(!w.fault_fired && w.revert_calls > 0, "a refused later operation after a mutation was undone");
                }
            }
        }
    };
}
c12_apply!(c12_apply_ops1_faults, 1, true);
c12_apply!(c12_apply_ops2_faults, 2, true);
c12_apply!(c12_apply_ops3_nofault, 3, false);
c12_apply!(c12t_apply_ops3_faults, 3, true);

// ---------------------------------------------------------------------------------------------------------
// (2) the hunk loop of apply_hunks_to_text + the real find_subslice_from over model line vectors
// ---------------------------------------------------------------------------------------------------------
mod hunk_loop_model {
    #![allow(unused)]
    pub const LCAP: usize = 8;
    #[derive(Clone, Copy, PartialEq, Debug)]
    pub struct String(pub u8); // a line is one byte
    pub mod io {
        #[derive(Clone, Copy, PartialEq, Debug)]
        pub enum ErrorKind {
            InvalidData,
        }
        #[derive(Clone, Copy, Debug)]
        pub struct Error(pub ErrorKind);
        impl Error {
            pub fn new<M>(kind: ErrorKind, _msg: M) -> Error {
                Error(kind)
            }
        }
    }
    macro_rules! format {
        ($($t:tt)*) => {
            ()
        };
    }
    pub struct ModelPath;
    impl ModelPath {
        pub fn display(&self) -> u8 {
            0
        }
    }
    #[derive(Clone, Copy)]
    pub struct Vec<T: Copy> {
        pub data: [T; LCAP],
        pub len: usize,
    }
    impl<T: Copy + PartialEq> PartialEq for Vec<T> {
        fn eq(&self, o: &Vec<T>) -> bool {
            self.data[..self.len] == o.data[..o.len]
        }
    }
    impl<T: Copy> core::ops::Deref for Vec<T> {
        type Target = [T];
        fn deref(&self) -> &[T] {
            &self.data[..self.len]
        }
    }
    impl<T: Copy> Vec<T> {
        pub fn extend_from_slice(&mut self, s: &[T]) {
            let mut i = 0;
            while i < s.len() {
                assert!(self.len < LCAP, "MODEL: line vector capacity exceeded");
                self.data[self.len] = s[i];
                self.len += 1;
                i += 1;
            }
        }
        // std's Vec::splice replaces the range by the iterator's items (when the returned Splice is dropped, which the sliced
        // statement does at once)
        pub fn splice<I: Iterator<Item = T>>(&mut self, r: core::ops::Range<usize>, it: I) {
            assert!(r.start <= r.end && r.end <= self.len, "splice range out of bounds (std panics)");
            let old = *self;
            let mut n = r.start;
            for v in it {
                assert!(n < LCAP, "MODEL: line vector capacity exceeded");
                self.data[n] = v;
                n += 1;
            }
            let mut i = r.end;
            while i < old.len {
                assert!(n < LCAP, "MODEL: line vector capacity exceeded");
                self.data[n] = old.data[i];
                n += 1;
                i += 1;
            }
            self.len = n;
        }
    }
    pub struct PatchHunk {
        pub before: Vec<String>,
        pub after: Vec<String>,
    }
    include!("/verif/harness/gen/hunk_loop_slice.rs");
}

fn k12_any_lines(max: usize) -> hunk_loop_model::Vec<hunk_loop_model::String> {
    use hunk_loop_model::*;
    let len: usize = kani::any();
    kani::assume(len <= max);
    let mut data = [String(b'a'); LCAP];
    let mut i = 0;
    while i < max {
        let b: bool = kani::any();
        data[i] = String(if b { b'a' } else { b'b' });
        i += 1;
    }
    Vec { data, len }
}

// reference: one hunk applied at or after `cursor`: first window equal to `before` at index >= cursor is replaced by `after`;
// an empty `before` appends at the end of the file. Returns the new cursor (end of the inserted lines), None = does not apply.
fn k12_ref_hunk(lines: &mut hunk_loop_model::Vec<hunk_loop_model::String>, cursor: usize, h: &hunk_loop_model::PatchHunk) -> Option<usize> {
    use hunk_loop_model::*;
    let (bl, al) = (h.before.len, h.after.len);
    let pos;
    if bl == 0 {
        pos = lines.len;
    } else {
        let mut found = None;
        let mut i = 0;
        while i + bl <= lines.len {
            if found.is_none() && i >= cursor {
                let mut eq = true;
                let mut j = 0;
                while j < bl {
                    if lines.data[i + j] != h.before.data[j] {
                        eq = false;
                    }
                    j += 1;
                }
                if eq {
                    found = Some(i);
                }
            }
            i += 1;
        }
        pos = found?;
    }
    let old = *lines;
    let mut n = pos;
    let mut j = 0;
    while j < al {
        lines.data[n] = h.after.data[j];
        n += 1;
        j += 1;
    }
    let mut i = pos + bl;
    while i < old.len {
        lines.data[n] = old.data[i];
        n += 1;
        i += 1;
    }
    lines.len = n;
    Some(pos + al)
}

macro_rules! c12_hunks {
    ($name:ident, $file:expr, $ctx:expr, $unwind:expr) => {
        #[kani::proof]
        #[kani::unwind($unwind)]
        fn $name() {
            use hunk_loop_model::*;
            let lines = k12_any_lines($file);
            let h1 = PatchHunk { before: k12_any_lines($ctx), after: k12_any_lines($ctx) };
            let h2 = PatchHunk { before: k12_any_lines($ctx), after: k12_any_lines($ctx) };
            let mut rl = lines;
            let r1 = k12_ref_hunk(&mut rl, 0, &h1);
            let r2 = match r1 {
                Some(c) => k12_ref_hunk(&mut rl, c, &h2),
                None => None,
            };
            let hunks = [h1, h2];
            match apply_hunks_loop(lines, &hunks, &ModelPath) {
                Ok(out) => {
                    assert!(r2.is_some(), "hunks applied although a hunk's context does not occur at or after the previous hunk's end");
                    assert!(out.len == rl.len, "updated file has the wrong number of lines");
                    let mut i = 0;
                    while i < LCAP {
                        if i < out.len {
                            assert!(out.data[i] == rl.data[i], "updated file differs from applying the hunks in order, each at the first match after the previous hunk");
                        }
                        i += 1;
                    }
                    kani::cover!(hunks[0].before.len > 0 && hunks[0].before.len != hunks[0].after.len && hunks[1].before.len > 0,
                                 "first hunk changes the line count, second hunk has context");
                }
                Err(_) => {
                    assert!(r2.is_none(), "hunks refused although every hunk's context occurs at or after the previous hunk's end");
                    kani::cover!(r1.is_some(), "second hunk does not apply");
                }
            }
        }
    };
}
c12_hunks!(c12_hunks_file3_ctx2, 3, 2, 10);
c12_hunks!(c12t_hunks_file4_ctx2, 4, 2, 10);
