// Kani harnesses mounted into crates/rip-workspace/src/patch.rs (cfg(kani) only).
#![allow(unused_imports, dead_code)]
use super::*;
