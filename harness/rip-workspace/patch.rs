// Kani harnesses mounted into crates/rip-workspace/src/patch.rs (cfg(kani) only).
#![allow(unused_imports, dead_code)]
use super::*;

/// Patch constructor for harnesses of lib.rs (the `ops` field is private to this module).
pub fn kani_patch(ops: Vec<PatchOp>) -> Patch {
    Patch { ops }
}

fn alias1(p: *mut u8) -> String {
    unsafe { String::from_raw_parts(p, 1, 0) }
}

// C12(a) kernel: the hunk context search is cursor-forward and takes the FIRST match at or after the cursor.
// Haystack of N one-byte lines and needle of M one-byte lines with symbolic bytes over {a,b}; cursor symbolic.
macro_rules! c12_find {
    ($name:ident, $n:expr, $m:expr) => {
        #[kani::proof]
        #[kani::unwind(8)]
        fn $name() {
            let mut hb: [u8; $n] = kani::any();
            let mut nb: [u8; $m] = kani::any();
            let mut i = 0;
            while i < $n {
                kani::assume(hb[i] == b'a' || hb[i] == b'b');
                i += 1;
            }
            i = 0;
            while i < $m {
                kani::assume(nb[i] == b'a' || nb[i] == b'b');
                i += 1;
            }
            let hp = hb.as_mut_ptr();
            let np = nb.as_mut_ptr();
            let hay: [String; $n] = core::array::from_fn(|i| alias1(unsafe { hp.add(i) }));
            let needle: [String; $m] = core::array::from_fn(|i| alias1(unsafe { np.add(i) }));
            let start: usize = kani::any();
            kani::assume(start <= $n + 1);
            let got = find_subslice_from(&hay, &needle, start);
            // reference: first index >= start whose window equals the needle
            let mut want: Option<usize> = None;
            let mut idx = 0usize;
            while idx + $m <= $n {
                if idx >= start && want.is_none() {
                    let mut same = true;
                    let mut k = 0;
                    while k < $m {
                        if hb[idx + k] != nb[k] {
                            same = false;
                        }
                        k += 1;
                    }
                    if same {
                        want = Some(idx);
                    }
                }
                idx += 1;
            }
            assert!(got == want, "hunk context search is not the first match at or after the cursor");
            kani::cover!(want.is_some() && want != Some(0), "match found after a skipped earlier position");
            kani::cover!(want.is_none(), "context missing");
            core::mem::forget(hay);
            core::mem::forget(needle);
        }
    };
}
c12_find!(c12_find_h3_n1, 3, 1);
c12_find!(c12_find_h3_n2, 3, 2);
c12_find!(c12_find_h4_n2, 4, 2);

fn stub_fmt_format_p(_args: core::fmt::Arguments<'_>) -> String {
    String::new()
}

// C12(a): a one-line replacement hunk applied to a CONCRETE 2-line file (shape: LF / CRLF, trailing newline or not)
// with SYMBOLIC context and replacement bytes over {a,b,c}: success iff the context line occurs, the FIRST occurrence
// is replaced, every other byte of the file (line-ending style, trailing newline) is preserved.
macro_rules! c12_hunk_replace {
    ($name:ident, $text:expr, $eol:expr, $trail:expr) => {
        #[kani::proof]
        #[kani::unwind(12)]
        #[kani::stub(std::fmt::format, stub_fmt_format_p)]
        fn $name() {
            let x: u8 = kani::any();
            let y: u8 = kani::any();
            kani::assume((x == b'a' || x == b'b' || x == b'c') && (y == b'a' || y == b'b' || y == b'c'));
            let mut xb = [x];
            let mut yb = [y];
            let mut hunk = core::mem::ManuallyDrop::new([PatchHunk {
                before: unsafe { Vec::from_raw_parts(&mut alias1(xb.as_mut_ptr()) as *mut String, 0, 0) },
                after: Vec::new(),
            }]);
            // one-element before/after vectors backed by stack storage
            let mut before_store = core::mem::ManuallyDrop::new([alias1(xb.as_mut_ptr())]);
            let mut after_store = core::mem::ManuallyDrop::new([alias1(yb.as_mut_ptr())]);
            hunk[0].before = unsafe { Vec::from_raw_parts(before_store.as_mut_ptr(), 1, 0) };
            hunk[0].after = unsafe { Vec::from_raw_parts(after_store.as_mut_ptr(), 1, 0) };

            let r = apply_hunks_to_text($text, &hunk[..], Path::new("f"));
            // file lines are "a" then "b"
            let eol: &[u8] = $eol;
            match &r {
                Ok(out) => {
                    assert!(x == b'a' || x == b'b', "hunk applied although its context does not occur in the file");
                    let l0 = if x == b'a' { y } else { b'a' };
                    let l1 = if x == b'a' { b'b' } else { y };
                    let ob = out.as_bytes();
                    let want_len = 2 + eol.len() + if $trail { eol.len() } else { 0 };
                    assert!(ob.len() == want_len, "updated text has the wrong length (line ending / trailing newline not preserved)");
                    assert!(ob[0] == l0, "first line wrong after the update");
                    let mut k = 0;
                    while k < eol.len() {
                        assert!(ob[1 + k] == eol[k], "line-ending style not preserved");
                        k += 1;
                    }
                    assert!(ob[1 + eol.len()] == l1, "second line wrong after the update");
                    if $trail {
                        let mut k2 = 0;
                        while k2 < eol.len() {
                            assert!(ob[2 + eol.len() + k2] == eol[k2], "trailing newline not preserved");
                            k2 += 1;
                        }
                    }
                }
                Err(_) => assert!(x == b'c', "hunk refused although its context occurs in the file"),
            }
            kani::cover!(r.is_ok() && x == b'b', "second line replaced");
            kani::cover!(r.is_err(), "missing context refused");
            core::mem::forget(r);
        }
    };
}
// (does not finish: out of memory / > 400 s even on concrete text) c12_hunk_replace!(c12_hunk_lf_trailing, "a\nb\n", b"\n", true);
// (does not finish: out of memory / > 400 s even on concrete text) c12_hunk_replace!(c12_hunk_lf_notrailing, "a\nb", b"\n", false);
// (does not finish: out of memory / > 400 s even on concrete text) c12_hunk_replace!(c12_hunk_crlf_trailing, "a\r\nb\r\n", b"\r\n", true);

// C12: "text updates preserve the file's line-ending style and trailing newline" -- the line split/join pair is the
// identity on every LF text, and on every CRLF text whose every line break is CRLF. Text = 3 symbolic bytes over
// {a, \n} (LF shape) resp. 4 bytes over {a, \r\n pairs} (CRLF shape).
#[kani::proof]
#[kani::unwind(8)]
// NOT REGISTERED: out of memory (62 GB) after 7 min -- str::contains / split / join over 3 symbolic bytes.
fn zz_c12_lines_roundtrip_lf3() {
    let b: [u8; 3] = kani::any();
    let mut i = 0;
    while i < 3 {
        kani::assume(b[i] == b'a' || b[i] == b'\n');
        i += 1;
    }
    let text = unsafe { core::str::from_utf8_unchecked(&b) };
    let eol = detect_line_ending(text);
    assert!(eol.len() == 1, "LF text detected as CRLF");
    let (lines, trailing) = split_lines(text);
    let out = join_lines(&lines, trailing, eol);
    let ob = out.as_bytes();
    // a text consisting only of line breaks after an empty first line is the one documented exception: no lines => ""
    if !lines.is_empty() {
        assert!(ob.len() == 3, "split/join changed the length of an LF text");
        assert!(ob[0] == b[0] && ob[1] == b[1] && ob[2] == b[2], "split/join is not the identity on an LF text");
    }
    kani::cover!(trailing && !lines.is_empty(), "text with a trailing newline");
    kani::cover!(!trailing, "text without a trailing newline");
    core::mem::forget(lines);
    core::mem::forget(out);
}

// C14 ("the automatic checkpoint covers every file that tool can change"): the REAL Patch::affected_paths on two operations of
// ANY kind: the list names every path of every operation, move targets included, and nothing else, in operation order.
fn k14_op(kind: u8, p: &'static str, t: &'static str) -> PatchOp {
    match kind {
        0 => PatchOp::AddFile { path: PathBuf::from(p), content: String::new() },
        1 => PatchOp::DeleteFile { path: PathBuf::from(p) },
        2 => PatchOp::UpdateFile { path: PathBuf::from(p), moved_to: None, hunks: Vec::new() },
        _ => PatchOp::UpdateFile { path: PathBuf::from(p), moved_to: Some(PathBuf::from(t)), hunks: Vec::new() },
    }
}
#[kani::proof]
#[kani::unwind(8)]
fn c14_affected_paths_two_ops() {
    let k0: u8 = kani::any();
    let k1: u8 = kani::any();
    kani::assume(k0 < 4 && k1 < 4);
    let mut ops = Vec::with_capacity(2);
    ops.push(k14_op(k0, "a", "b"));
    ops.push(k14_op(k1, "c", "d"));
    let patch = Patch { ops };
    let got = patch.affected_paths();
    let want0 = if k0 == 3 { 2 } else { 1 };
    let want1 = if k1 == 3 { 2 } else { 1 };
    assert!(got.len() == want0 + want1, "affected_paths does not list every path the patch names exactly once per mention");
    let is = |p: &PathBuf, s: &str| p.as_os_str().len() == 1 && p.as_os_str().as_encoded_bytes()[0] == s.as_bytes()[0];
    assert!(is(&got[0], "a"), "affected_paths misses the first operation's path");
    if k0 == 3 {
        assert!(is(&got[1], "b"), "affected_paths misses a move target");
    }
    assert!(is(&got[want0], "c"), "affected_paths misses the second operation's path");
    if k1 == 3 {
        assert!(is(&got[want0 + 1], "d"), "affected_paths misses a move target");
    }
    kani::cover!(k0 == 3 && k1 == 3, "two moves");
    core::mem::forget(got);
    core::mem::forget(patch);
}
