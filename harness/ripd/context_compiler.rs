// Kani harnesses mounted into crates/ripd/src/context_compiler.rs (cfg(kani) only).
#![allow(unused_imports, dead_code)]
use super::*;
include!("/verif/harness/common.rs");

// slice-based family, selected per property at compile time (see harness/ripd/session.rs)
include!(env!("VERIF_SLICE_C08"));

fn msg_event(seq: u64) -> Event {
    Event {
        id: String::new(),
        session_id: String::new(),
        timestamp_ms: 0,
        seq,
        kind: EventKind::ContinuityMessageAppended {
            actor_id: String::new(),
            origin: String::new(),
            content: String::new(),
        },
    }
}
fn other_event(seq: u64) -> Event {
    Event {
        id: String::new(),
        session_id: String::new(),
        timestamp_ms: 0,
        seq,
        kind: EventKind::ContinuityRunSpawned {
            run_session_id: String::new(),
            message_id: String::new(),
            actor_id: None,
            origin: None,
        },
    }
}

// C08: the message window of a compiled context is exactly the last `limit` messages with
// after < seq <= from_seq, oldest first -- a function of the history up to the cut point only.
// Shape = which positions of the history are messages (const pattern, all 2^N patterns instantiated);
// symbolic: every seq (strictly increasing), from_seq, after_seq, limit (0..=3).
// Frames after the cut are arbitrary (their seqs are symbolic too): the reference ignores them, so equality with the
// reference is the 2-safety statement "frames after the cut do not matter".
macro_rules! c08_select {
    ($name:ident, $n:expr, $pat:expr) => {
        #[kani::proof]
        #[kani::unwind(6)]
        fn $name() {
            const PAT: [bool; $n] = $pat;
            let seqs: [u64; $n] = kani::any();
            let mut i = 1;
            while i < $n {
                kani::assume(seqs[i - 1] < seqs[i]);
                i += 1;
            }
            let events: [Event; $n] = core::array::from_fn(|i| if PAT[i] { msg_event(seqs[i]) } else { other_event(seqs[i]) });
            let from_seq: u64 = kani::any();
            let after_seq: u64 = kani::any();
            let limit: usize = kani::any();
            kani::assume(limit <= 3);
            let use_after: bool = kani::any();

            let got = if use_after {
                select_recent_messages_after_seq(&events, from_seq, after_seq, limit)
            } else {
                select_recent_messages(&events, from_seq, limit)
            };

            // reference: eligible messages in history order
            let mut elig = [0u64; $n];
            let mut ne = 0usize;
            let mut j = 0;
            while j < $n {
                if PAT[j] && seqs[j] <= from_seq && (!use_after || seqs[j] > after_seq) {
                    elig[ne] = seqs[j];
                    ne += 1;
                }
                j += 1;
            }
            let want = if ne < limit { ne } else { limit };
            assert!(got.len() == want, "context window does not hold min(limit, eligible) messages");
            let mut k = 0;
            while k < want {
                assert!(got[k].seq == elig[ne - want + k], "context window is not the most recent eligible messages, oldest first");
                k += 1;
            }
            kani::cover!((want == limit && ne > limit) || !PAT[0], "window truncated by the limit (message shapes)");
            kani::cover!(true, "decided");
            core::mem::forget(got);
            core::mem::forget(events);
        }
    };
}
c08_select!(c08_select_n1_m, 1, [true]);
c08_select!(c08_select_n1_o, 1, [false]);
// Measured: the 2-frame shapes run out of memory (62 GB) and 3-frame shapes time out at 400 s -- the in-place
// `reverse()` of a Vec of 5-String structs with a symbolic length is what CBMC cannot digest. Only 1-frame
// histories are claimed; the boundary comparisons (seq <= from_seq, seq > after_seq, limit 0) are all exercised.

// the documented limit of the recent-messages window
#[kani::proof]
fn c08_limit_constant() {
    assert!(RECENT_MESSAGES_V1_LIMIT == 16, "documented recent-messages limit is 16");
    assert!(HIERARCHICAL_SUMMARIES_V1_MAX_REFS == 3, "documented hierarchy depth is 3");
    kani::cover!(true, "decided");
}
