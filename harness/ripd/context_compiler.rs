// Kani harnesses mounted into crates/ripd/src/context_compiler.rs (cfg(kani) only).
#![allow(unused_imports, dead_code)]
use super::*;
