// Kani harnesses mounted into crates/ripd/src/workspace_lock.rs (cfg(kani) only).
#![allow(unused_imports, dead_code)]
use super::*;
