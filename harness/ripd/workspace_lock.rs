// Kani harnesses mounted into crates/ripd/src/workspace_lock.rs (cfg(kani) only).
#![allow(unused_imports, dead_code)]
use super::*;

// C11: classification of the built-in tools (rip-tools registers read, artifact_fetch, write, apply_patch, ls, grep,
// bash and its alias shell): every mutating one requires the workspace lock, the read-only ones do not (they "may
// overlap freely").
#[kani::proof]
#[kani::unwind(16)]
fn c11_lock_classification() {
    assert!(requires_workspace_lock("write"), "write runs without the workspace lock");
    assert!(requires_workspace_lock("apply_patch"), "apply_patch runs without the workspace lock");
    assert!(requires_workspace_lock("bash"), "bash runs without the workspace lock");
    assert!(requires_workspace_lock("shell"), "shell runs without the workspace lock");
    assert!(!requires_workspace_lock("read"), "read is serialized behind the workspace lock");
    assert!(!requires_workspace_lock("ls"), "ls is serialized behind the workspace lock");
    assert!(!requires_workspace_lock("grep"), "grep is serialized behind the workspace lock");
    assert!(!requires_workspace_lock("artifact_fetch"), "artifact_fetch is serialized behind the workspace lock");
    // any other (unknown / future) tool name of up to 3 bytes is treated as mutating
    let b: [u8; 3] = kani::any();
    kani::assume(b[0].is_ascii_lowercase() && b[1].is_ascii_lowercase() && b[2].is_ascii_lowercase());
    let name = unsafe { core::str::from_utf8_unchecked(&b) };
    assert!(requires_workspace_lock(name), "an unknown tool is not treated as mutating");
    kani::cover!(true, "decided");
}
