// Kani harnesses mounted into crates/ripd/src/tasks/logs.rs (cfg(kani) only).
#![allow(unused_imports, dead_code)]
use super::*;
include!("/verif/harness/common.rs");

// C13 -- the task working-directory resolver.
macro_rules! c13_task_cwd {
    ($name:ident, $len:expr, $unwind:expr) => {
        #[kani::proof]
        #[kani::unwind($unwind)]
        #[kani::stub(std::fmt::format, stub_fmt_format)]
        fn $name() {
            let b = sym_path_bytes::<$len>();
            let raw = unsafe { core::str::from_utf8_unchecked(&b) };
            let root = Path::new("/r");
            let r = resolve_path(root, raw);
            let esc = path_escapes(&b);
            kani::cover!(r.is_ok(), "a path is accepted");
            kani::cover!(esc, "an escaping path is generated");
            if esc {
                assert!(r.is_err(), "task cwd resolver accepted an absolute path or a path with a `..` segment");
            }
            core::mem::forget(r);
        }
    };
}
c13_task_cwd!(c13_task_cwd_len2, 2, 6);
c13_task_cwd!(c13_task_cwd_len3, 3, 7);
c13_task_cwd!(c13_task_cwd_len4, 4, 8);
include!(env!("VERIF_SLICE_C17"));
