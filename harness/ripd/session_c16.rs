// C16 harnesses, included from harness/ripd/session.rs when VERIF_SLICE_C16 selects them (module session::verif_kani).
//
// The WHOLE text of run_openresponses_agent_loop (gen/slice_agent_loop.py: verbatim, `async` / `.await` removed) runs over model
// objects named like the names the text uses. The model PROVIDER answers request k with a batch of function calls (batch sizes are
// the shape; tool names, whether a response id came with the batch, whether the stream failed are symbolic) and answers
// every later request without calls; every request the loop sends is recorded with its kind, previous_response_id and input
// items; the model tool runner records which call was executed. DEFAULT_MAX_TOOL_CALLS is shadowed by a small constant
// (the loop's bound logic is parametric in it) so that the limit falls in the MIDDLE of a batch within the bound.
mod agent_loop {
    #![allow(unused)]
    pub const DEFAULT_MAX_TOOL_CALLS: u64 = 3; // the product constant is 32; see the family's bounds
    pub const NREQ: usize = 4;
    pub const NITEMS: usize = 12;
    pub const NCALLS: usize = 4; // ordinals: batch * 2 + index

    #[derive(Clone, Copy, PartialEq, Debug)]
    pub enum ItemParam {
        User,
        Initial(u8),
        Call { call_id: u8, with_id: bool },
        Output { call_id: u8, output: u8, with_id: bool },
    }
    impl ItemParam {
        pub fn user_message_text(_t: &str) -> ItemParam {
            ItemParam::User
        }
    }
    #[derive(Clone, Copy)]
    pub struct ReqRec {
        pub kind: u8, // 0 prompt, 1 items, 2 followup
        pub prev: Option<u8>,
        pub n_items: usize,
        pub items: [ItemParam; NITEMS],
        pub calls_processed_before: u64,
    }
    pub struct World {
        // provider script
        pub batch_n: [usize; 2],
        pub names: [[u8; 2]; 2],
        pub has_response_id: [bool; 3],
        pub stream_ok: [bool; 3],
        pub bad_json: [bool; NCALLS],
        pub allow_x: bool,
        // recorded
        pub n_requests: usize,
        pub reqs: [ReqRec; NREQ],
        pub run_count: [u8; NCALLS],
        pub rejected_count: [u8; NCALLS],
        pub run_under_lock: [bool; NCALLS],
        pub lock_held: bool,
        pub emitted_batches: u32,
        pub side_effect_frames: u32,
        pub overflow: bool,
    }
    // ids, tool names and argument texts are ONE byte; `String` in the sliced text is this type (the run's end reason, built
    // from string literals with to_string(), stays a std String)
    #[derive(Clone, Copy, PartialEq, Debug)]
    pub struct String(pub u8);
    #[repr(transparent)]
    pub struct StrRef(pub u8); // what `Option<String>::as_deref()` hands out
    impl core::ops::Deref for String {
        type Target = StrRef;
        fn deref(&self) -> &StrRef {
            unsafe { &*(self as *const String as *const StrRef) }
        }
    }
    pub type StdString = ::std::string::String;
    pub fn s1(b: u8) -> String {
        String(b)
    }
    pub fn b1(s: &String) -> u8 {
        s.0
    }
    static BYTES: [u8; 128] = {
        let mut t = [0u8; 128];
        let mut i = 0;
        while i < 128 {
            t[i] = i as u8;
            i += 1;
        }
        t
    };
    // a one-byte std String that owns no heap memory (capacity 0, aliases a static identity table)
    pub fn std1(b: u8) -> StdString {
        unsafe { StdString::from_raw_parts(BYTES.as_ptr().add((b & 0x7f) as usize) as *mut u8, 1, 0) }
    }
    pub fn stdb1(s: &str) -> u8 {
        if s.len() == 1 {
            s.as_bytes()[0]
        } else {
            0xff
        }
    }
    // std's Vec as far as the loop uses it, array-backed (no heap)
    pub const VCAP: usize = 12;
    pub struct Vec<T> {
        pub data: [Option<T>; VCAP],
        pub len: usize,
    }
    impl<T> Vec<T> {
        pub fn new() -> Self {
            Vec { data: [const { None }; VCAP], len: 0 }
        }
        pub fn push(&mut self, v: T) {
            assert!(self.len < VCAP, "MODEL: Vec capacity exceeded");
            self.data[self.len] = Some(v);
            self.len += 1;
        }
        pub fn len(&self) -> usize {
            self.len
        }
        pub fn is_empty(&self) -> bool {
            self.len == 0
        }
        pub fn at(&self, i: usize) -> &T {
            match &self.data[i] {
                Some(v) => v,
                None => panic!("MODEL: hole in Vec"),
            }
        }
        pub fn extend<I: IntoIterator<Item = T>>(&mut self, o: I) {
            for v in o {
                self.push(v);
            }
        }
    }
    impl<T> Extend<T> for Vec<T> {
        fn extend<I: IntoIterator<Item = T>>(&mut self, o: I) {
            for v in o {
                self.push(v);
            }
        }
    }
    impl<T> core::iter::FromIterator<T> for Vec<T> {
        fn from_iter<I: IntoIterator<Item = T>>(it: I) -> Self {
            let mut v = Vec::new();
            for x in it {
                v.push(x);
            }
            v
        }
    }
    impl<T> Default for Vec<T> {
        fn default() -> Self {
            Vec::new()
        }
    }
    impl<T: Clone> Clone for Vec<T> {
        fn clone(&self) -> Self {
            let mut v = Vec::new();
            let mut i = 0;
            while i < VCAP {
                if i < self.len {
                    v.push(self.at(i).clone());
                }
                i += 1;
            }
            v
        }
    }
    pub struct VecIntoIter<T> {
        v: Vec<T>,
        next: usize,
    }
    impl<T> Iterator for VecIntoIter<T> {
        type Item = T;
        fn next(&mut self) -> Option<T> {
            if self.next < self.v.len {
                self.next += 1;
                self.v.data[self.next - 1].take()
            } else {
                None
            }
        }
    }
    impl<T> IntoIterator for Vec<T> {
        type Item = T;
        type IntoIter = VecIntoIter<T>;
        fn into_iter(self) -> VecIntoIter<T> {
            VecIntoIter { v: self, next: 0 }
        }
    }
    pub struct VecIter<'a, T> {
        v: &'a Vec<T>,
        next: usize,
    }
    impl<'a, T> Iterator for VecIter<'a, T> {
        type Item = &'a T;
        fn next(&mut self) -> Option<&'a T> {
            if self.next < self.v.len {
                self.next += 1;
                Some(self.v.at(self.next - 1))
            } else {
                None
            }
        }
    }
    impl<'a, T> IntoIterator for &'a Vec<T> {
        type Item = &'a T;
        type IntoIter = VecIter<'a, T>;
        fn into_iter(self) -> VecIter<'a, T> {
            VecIter { v: self, next: 0 }
        }
    }
    macro_rules! vec {
        ($x:expr) => {{
            let mut v = Vec::new();
            v.push($x);
            v
        }};
    }
    macro_rules! format {
        ($($t:tt)*) => {
            StdString::new()
        };
    }
    // ---- configuration -----------------------------------------------------------------------------------------
    pub struct ModelToolChoice(pub *mut World);
    pub struct OpenResponsesConfig {
        pub stateless_history: bool,
        pub tool_choice: ModelToolChoice,
        pub w: *mut World,
    }
    // tool names are one byte: 'r' (read-only), 'w' (mutating: needs the workspace lock), 'x' (the tool the configured tool
    // choice may bar)
    pub struct ToolChoiceEnforcement {
        allow_x: bool,
    }
    impl ToolChoiceEnforcement {
        pub fn from_tool_choice(tc: &ModelToolChoice) -> Self {
            let w = unsafe { &*tc.0 };
            ToolChoiceEnforcement { allow_x: w.allow_x }
        }
        pub fn allows_function(&self, name: &String) -> bool {
            b1(name) != b'x' || self.allow_x
        }
    }
    pub fn requires_workspace_lock(name: &String) -> bool {
        b1(name) == b'w'
    }
    // ---- requests ------------------------------------------------------------------------------------------------
    pub struct CreateResponsePayload {
        pub kind: u8,
        pub prev: Option<u8>,
        pub items: Vec<ItemParam>,
    }
    pub fn build_streaming_request(_c: &OpenResponsesConfig, _prompt: &str) -> CreateResponsePayload {
        CreateResponsePayload { kind: 0, prev: None, items: Vec::new() }
    }
    pub fn build_streaming_request_items(_c: &OpenResponsesConfig, items: Vec<ItemParam>) -> CreateResponsePayload {
        CreateResponsePayload { kind: 1, prev: None, items }
    }
    pub fn build_streaming_followup_request(_c: &OpenResponsesConfig, prev: Option<&StrRef>, items: Vec<ItemParam>) -> CreateResponsePayload {
        CreateResponsePayload { kind: 2, prev: prev.map(|p| p.0), items }
    }
    pub struct FunctionCallItem {
        pub output_index: u64,
        pub call_id: String,
        pub item_id: Option<String>,
        pub name: String,
        pub arguments: String,
    }
    #[derive(Default)]
    pub struct ToolCallCollector {
        pub response_id: Option<String>,
        pub completed_function_calls: Vec<FunctionCallItem>,
    }
    impl ToolCallCollector {
        pub fn drain_function_calls(&mut self) -> Vec<FunctionCallItem> {
            core::mem::take(&mut self.completed_function_calls)
        }
    }
    pub struct ModelHttp(pub *mut World);
    #[derive(Clone, Copy)]
    pub struct EventSink<'a> {
        pub w: *mut World,
        pub _p: core::marker::PhantomData<&'a ()>,
    }
    pub struct ModelToolEvents {
        pub ordinal: u8,
        pub rejected: bool,
    }
    impl<'a> EventSink<'a> {
        pub fn emit_all(&self, ev: ModelToolEvents) {
            let w = unsafe { &mut *self.w };
            w.emitted_batches += 1;
        }
    }
    pub struct ModelPath;
    pub struct OpenResponsesStreamRequest<'a> {
        pub http: &'a ModelHttp,
        pub config: &'a OpenResponsesConfig,
        pub workspace_root: &'a ModelPath,
        pub session_id: &'a str,
        pub payload: CreateResponsePayload,
        pub request_index: u64,
        pub request_kind: &'a str,
        pub seq: &'a mut u64,
        pub sink: EventSink<'a>,
        pub collector: &'a mut ToolCallCollector,
    }
    pub fn call_id_of(ordinal: usize) -> u8 {
        b'A' + ordinal as u8
    }
    // the model provider: records the request, answers request k with batch k
    pub fn stream_openresponses_request<'a>(req: OpenResponsesStreamRequest<'a>) -> Result<(), StdString> {
        let w = unsafe { &mut *req.http.0 };
        let k = w.n_requests;
        if k >= NREQ {
            w.overflow = true;
            return Err(std1(b'e'));
        }
        let mut rec = ReqRec { kind: req.payload.kind, prev: req.payload.prev, n_items: req.payload.items.len(), items: [ItemParam::User; NITEMS],
                               calls_processed_before: 0 };
        let mut i = 0;
        while i < NITEMS {
            if i < req.payload.items.len() {
                rec.items[i] = *req.payload.items.at(i);
            }
            i += 1;
        }
        if req.payload.items.len() > NITEMS {
            w.overflow = true;
        }
        w.reqs[k] = rec;
        w.n_requests = k + 1;
        assert!(req.request_index == k as u64, "request_index is not the ordinal of the request");
        if k < 3 && !w.stream_ok[k] {
            return Err(std1(b'e'));
        }
        if k < 3 && w.has_response_id[k] {
            req.collector.response_id = Some(s1(b'0' + k as u8));
        }
        if k < 2 {
            let mut i = 0;
            while i < 2 {
                if i < w.batch_n[k] {
                    let ord = k * 2 + i;
                    req.collector.completed_function_calls.push(FunctionCallItem {
                        output_index: i as u64,
                        call_id: s1(call_id_of(ord)),
                        item_id: None,
                        name: s1(w.names[k][i]),
                        arguments: s1(ord as u8 | if w.bad_json[ord] { BADJSON } else { 0 }),
                    });
                }
                i += 1;
            }
        }
        Ok(())
    }
    // ---- tools ------------------------------------------------------------------------------------------------------
    pub enum Value {
        String(String),
        Parsed(u8),
        Output(u8),
    }
    pub trait FromArgs: Sized {
        fn from_args(s: &String, ok: bool) -> Result<Self, ()>;
    }
    impl FromArgs for Value {
        fn from_args(s: &String, ok: bool) -> Result<Value, ()> {
            if ok {
                Ok(Value::Parsed(b1(s) & 0x0f))
            } else {
                Err(())
            }
        }
    }
    pub const REJ: u8 = 0x20; // flag in an output byte: the call was rejected, not executed
    pub const BADJSON: u8 = 0x40; // flag in an arguments byte: the arguments are not valid JSON
    pub mod serde_json {
        use super::*;
        pub fn from_str<T: FromArgs>(s: &String) -> Result<T, ()> {
            T::from_args(s, b1(s) & BADJSON == 0)
        }
        pub fn to_string(v: &Value) -> Result<StdString, ()> {
            match v {
                Value::Output(o) => Ok(std1(*o)),
                _ => Err(()),
            }
        }
    }
    pub struct ToolInvocation {
        pub name: String,
        pub args: Value,
        pub timeout_ms: Option<u64>,
    }
    fn ordinal_of(inv: &ToolInvocation) -> u8 {
        match &inv.args {
            Value::Parsed(o) => *o,
            Value::String(s) => b1(s) & 0x0f,
            Value::Output(_) => 0xff,
        }
    }
    pub struct ToolRunner(pub *mut World);
    impl ToolRunner {
        pub fn run(&self, _sid: &str, seq: &mut u64, inv: ToolInvocation) -> ModelToolEvents {
            let w = unsafe { &mut *self.0 };
            let o = ordinal_of(&inv);
            if (o as usize) < NCALLS {
                w.run_count[o as usize] += 1;
                w.run_under_lock[o as usize] = w.lock_held;
            } else {
                w.overflow = true;
            }
            *seq += 2;
            ModelToolEvents { ordinal: o, rejected: false }
        }
    }
    pub fn rejected_tool_invocation_events(_sid: &str, seq: &mut u64, inv: &ToolInvocation, call_id: &String, _err: &str) -> ModelToolEvents {
        *seq += 2;
        ModelToolEvents { ordinal: ordinal_of(inv), rejected: true }
    }
    pub fn tool_events_to_function_call_output(_name: &String, ev: &ModelToolEvents) -> Value {
        Value::Output(if ev.rejected { ev.ordinal | REJ } else { ev.ordinal })
    }
    pub struct ModelSideEffects;
    pub fn summarize_continuity_tool_side_effects(ev: &ModelToolEvents) -> Option<ModelSideEffects> {
        Some(ModelSideEffects)
    }
    pub struct WorkspaceLock(pub *mut World);
    pub struct ModelGuard(*mut World);
    impl Drop for ModelGuard {
        fn drop(&mut self) {
            let w = unsafe { &mut *self.0 };
            w.lock_held = false;
        }
    }
    impl WorkspaceLock {
        pub fn acquire(&self) -> ModelGuard {
            let w = unsafe { &mut *self.0 };
            w.lock_held = true;
            ModelGuard(self.0)
        }
    }
    pub struct ContinuityRunLink;
    pub struct ContinuityStore(pub *mut World, pub ModelPath);
    impl ContinuityStore {
        pub fn workspace_root(&self) -> &ModelPath {
            &self.1
        }
        pub fn append_tool_side_effects(&self, _l: &ContinuityRunLink, _sid: &str, _s: ModelSideEffects) -> Result<(), ()> {
            let w = unsafe { &mut *self.0 };
            w.side_effect_frames += 1;
            Ok(())
        }
    }
    pub fn function_call_item_from_call(call: &FunctionCallItem, include_id: bool) -> ItemParam {
        ItemParam::Call { call_id: b1(&call.call_id), with_id: include_id }
    }
    pub fn function_call_output_item(call_id: &String, output_json: StdString, include_id: bool) -> ItemParam {
        ItemParam::Output { call_id: b1(call_id), output: stdb1(&output_json), with_id: include_id }
    }
    pub struct OpenResponsesRunContext<'a> {
        pub http: &'a ModelHttp,
        pub config: &'a OpenResponsesConfig,
        pub tool_runner: &'a ToolRunner,
        pub workspace_lock: &'a WorkspaceLock,
        pub continuities: &'a ContinuityStore,
        pub continuity_run: Option<&'a ContinuityRunLink>,
        pub session_id: &'a str,
        pub initial_items: Option<Vec<ItemParam>>,
        pub prompt: &'a str,
        pub seq: &'a mut u64,
        pub sink: EventSink<'a>,
    }
    pub struct OpenResponsesLoopOutcome {
        pub reason: StdString,
        pub last_response_id: Option<String>,
    }
    include!("/verif/harness/gen/agent_loop_slice.rs");
}

macro_rules! c16_loop {
    ($name:ident, $n0:expr, $n1:expr, $stateless:expr, $env:expr) => {
        #[kani::proof]
        #[kani::unwind(14)]
        fn $name() {
            use agent_loop::*;
            let blank = ReqRec { kind: 9, prev: None, n_items: 0, items: [ItemParam::User; NITEMS], calls_processed_before: 0 };
            let mut names = [[b'r'; 2]; 2];
            let mut bi = 0;
            while bi < 2 {
                let mut ci = 0;
                while ci < 2 {
                    let n: u8 = kani::any();
                    kani::assume(n == b'r' || n == b'w' || n == b'x');
                    names[bi][ci] = n;
                    ci += 1;
                }
                bi += 1;
            }
            let e = |dflt: bool| -> bool { if $env { kani::any() } else { dflt } };
            let mut world = World { batch_n: [$n0, $n1], names, has_response_id: [e(true), e(true), e(true)],
                                    stream_ok: [e(true), e(true), e(true)], bad_json: [e(false), e(false), e(false), e(false)], allow_x: kani::any(),
                                    n_requests: 0, reqs: [blank; NREQ], run_count: [0; NCALLS], rejected_count: [0; NCALLS],
                                    run_under_lock: [false; NCALLS], lock_held: false, emitted_batches: 0, side_effect_frames: 0, overflow: false };
            let wp: *mut World = &mut world;
            let http = ModelHttp(wp);
            let config = OpenResponsesConfig { stateless_history: $stateless, tool_choice: ModelToolChoice(wp), w: wp };
            let runner = ToolRunner(wp);
            let lock = WorkspaceLock(wp);
            let store = ContinuityStore(wp, ModelPath);
            let link = ContinuityRunLink;
            let linked: bool = e(true);
            let with_initial: bool = e(false);
            let mut seq: u64 = 5;
            let ctx = OpenResponsesRunContext {
                http: &http, config: &config, tool_runner: &runner, workspace_lock: &lock, continuities: &store,
                continuity_run: if linked { Some(&link) } else { None }, session_id: "s",
                initial_items: if with_initial { let mut v = Vec::new(); v.push(ItemParam::Initial(7)); Some(v) } else { None }, prompt: "p", seq: &mut seq,
                sink: EventSink { w: wp, _p: core::marker::PhantomData },
            };
            let outcome = run_openresponses_agent_loop(ctx);
            let w = unsafe { &*wp };
            assert!(!w.overflow, "MODEL: recorder capacity exceeded");
            let reason_len = outcome.reason.len(); // "completed" 9, "provider_error" 14, "max_tool_calls_exceeded" 23, model stream error 1
            let nreq = w.n_requests;
            assert!(nreq >= 1, "the loop returned without sending the first request");
            // ---- per call: executed at most once; a barred tool never; the bound on tool calls
            let mut processed: u64 = 0;
            let mut o = 0;
            while o < NCALLS {
                assert!(w.run_count[o] <= 1, "a function call was executed twice");
                let (b, i) = (o / 2, o % 2);
                let emitted = b + 1 <= nreq && i < w.batch_n[b] && w.stream_ok[b];
                if !emitted {
                    assert!(w.run_count[o] == 0, "a tool ran for a call the provider never emitted");
                } else {
                    let barred = w.names[b][i] == b'x' && !w.allow_x;
                    if barred {
                        assert!(w.run_count[o] == 0, "a tool excluded by the configured tool choice was executed");
                    }
                    if w.names[b][i] == b'w' && w.run_count[o] == 1 {
                        assert!(w.run_under_lock[o], "a mutating tool ran without the workspace lock");
                    }
                }
                processed += w.run_count[o] as u64;
                o += 1;
            }
            assert!(processed <= DEFAULT_MAX_TOOL_CALLS, "more tools were executed in one run than the configured maximum");
            // every processed call (executed or rejected) produced two frames in the models: the session seq counts them
            assert!((seq - 5) / 2 <= DEFAULT_MAX_TOOL_CALLS, "more function calls were processed in one run than the configured maximum");
            // ---- per request k+1: it answers exactly the calls of response k, by call id, in the provider's order
            let mut k = 0;
            while k + 1 < NREQ {
                if k + 1 < nreq {
                    let prevr = &w.reqs[k];
                    let r = &w.reqs[k + 1];
                    let n = if k < 2 { w.batch_n[k] } else { 0 };
                    assert!(n > 0 && w.stream_ok[k], "a follow-up request was sent although the previous response had no function call (or failed)");
                    assert!(r.kind == 2, "the request after a response with function calls is not a follow-up request");
                    if $stateless {
                        assert!(r.prev.is_none(), "stateless history: the follow-up names a previous_response_id");
                        assert!(prevr.kind != 0, "stateless history: a request without input items");
                        assert!(r.n_items == prevr.n_items + 2 * n,
                                "stateless history: the follow-up input is not the previous input plus one call item and one output item per call");
                        let base = r.n_items - 2 * n;
                        let mut j = 0;
                        while j < NITEMS {
                            if j < base {
                                assert!(r.items[j] == prevr.items[j], "stateless history: a request's input does not extend the previous request's input");
                            }
                            j += 1;
                        }
                        let mut i = 0;
                        while i < 2 {
                            if i < n {
                                let cid = call_id_of(k * 2 + i);
                                assert!(r.items[base + i] == ItemParam::Call { call_id: cid, with_id: true }, "stateless history: the provider's call items are not replayed in output order");
                                match r.items[base + n + i] {
                                    ItemParam::Output { call_id, output, with_id } => {
                                        assert!(call_id == cid, "function calls are not answered by call id in the provider's output order");
                                        assert!(output & 0x0f == (k * 2 + i) as u8, "a call is answered with the output of another call");
                                    }
                                    _ => assert!(false, "a function call of the previous response is not answered in the very next request"),
                                }
                            }
                            i += 1;
                        }
                    } else {
                        assert!(r.n_items == n, "the follow-up does not carry exactly one output per function call of the previous response");
                        // the latest response id known when the follow-up is built
                        let mut latest: Option<u8> = None;
                        let mut q = 0;
                        while q <= k {
                            if w.has_response_id[q] {
                                latest = Some(b'0' + q as u8);
                            }
                            q += 1;
                        }
                        assert!(r.prev.is_some() && r.prev == latest, "the follow-up does not continue the latest response (previous_response_id)");
                        let mut i = 0;
                        while i < 2 {
                            if i < n {
                                let cid = call_id_of(k * 2 + i);
                                match r.items[i] {
                                    ItemParam::Output { call_id, output, with_id } => {
                                        assert!(call_id == cid, "function calls are not answered by call id in the provider's output order");
                                        assert!(output & 0x0f == (k * 2 + i) as u8, "a call is answered with the output of another call");
                                        let barred = w.names[k][i] == b'x' && !w.allow_x;
                                        assert!((output & REJ != 0) == barred, "a barred call is answered as executed, or an executed call as rejected");
                                    }
                                    _ => assert!(false, "a function call of the previous response is not answered in the very next request"),
                                }
                            }
                            i += 1;
                        }
                    }
                    // every call of response k was executed or rejected exactly once before the follow-up went out
                    let mut i = 0;
                    while i < 2 {
                        if i < n {
                            let barred = w.names[k][i] == b'x' && !w.allow_x;
                            assert!(w.run_count[k * 2 + i] == if barred { 0 } else { 1 }, "an allowed call was answered without being executed exactly once");
                        }
                        i += 1;
                    }
                }
                k += 1;
            }
            // ---- how the loop ended
            let last = nreq - 1;
            let last_n = if last < 2 { w.batch_n[last] } else { 0 };
            if reason_len == 9 {
                assert!(last_n == 0 && (last >= 3 || w.stream_ok[last]), "the run is reported completed although the last response asked for tools");
            }
            if last_n == 0 && (last >= 3 || w.stream_ok[last]) {
                assert!(reason_len == 9, "a response without function calls did not complete the run");
            }
            kani::cover!(if $n0 + $n1 >= 3 { nreq == 2 && reason_len == 23 } else if $n1 == 0 { nreq == 2 && reason_len == 9 } else { nreq == 3 && reason_len == 9 },
                         "two follow-ups and completed (or, when the batches exceed the limit, the limit ended the run in the middle of the second batch)");
            kani::cover!(nreq >= 2 && w.rejected_any(), "a barred call was answered");
            core::mem::forget(outcome);
        }
    };
}
impl agent_loop::World {
    fn rejected_any(&self) -> bool {
        let mut k = 1;
        let mut any = false;
        while k < agent_loop::NREQ {
            if k < self.n_requests {
                let mut j = 0;
                while j < agent_loop::NITEMS {
                    if j < self.reqs[k].n_items {
                        if let agent_loop::ItemParam::Output { output, .. } = self.reqs[k].items[j] {
                            if output & agent_loop::REJ != 0 {
                                any = true;
                            }
                        }
                    }
                    j += 1;
                }
            }
            k += 1;
        }
        any
    }
}
c16_loop!(c16_loop_b1_b1, 1, 1, false, false);
c16_loop!(c16_loop_b1_b0_env, 1, 0, false, true);
c16_loop!(c16_loop_b2_b2, 2, 2, false, false);
c16_loop!(c16_loop_b2_b1_env, 2, 1, false, true);
c16_loop!(c16_loop_b1_b1_stateless, 1, 1, true, false);
c16_loop!(c16t_loop_b1_b1_stateless_env, 1, 1, true, true);
c16_loop!(c16_loop_b2_b1_stateless, 2, 1, true, false);
c16_loop!(c16t_loop_b2_b2_stateless, 2, 2, true, false);
c16_loop!(c16t_loop_b1_b2, 1, 2, false, false);

// ---------------------------------------------------------------------------------------------------------
// The schema-validation gate and what leaves the process with a request: the head of stream_openresponses_request up to
// and including the HTTP send (gen/slice_agent_loop.py, second output: verbatim, `.await` removed, the explicit
// `crate::openresponses_observability::` path rewritten to a model module). Texts that matter are a model type carrying a
// SECRET taint (api key, header values) so that the same run also decides where the key can flow (C19's "key attached only
// to the outgoing HTTP request"): into bearer_auth / header of the outgoing request and nowhere else -- no frame, no dump.
// ---------------------------------------------------------------------------------------------------------
mod request_gate {
    #![allow(unused)]
    pub type StdString = ::std::string::String;
    #[derive(Clone, Copy, PartialEq, Debug)]
    pub struct String {
        pub id: u8,
        pub secret: bool,
    }
    #[repr(transparent)]
    pub struct StrRef(pub String);
    impl core::ops::Deref for String {
        type Target = StrRef;
        fn deref(&self) -> &StrRef {
            unsafe { &*(self as *const String as *const StrRef) }
        }
    }
    impl String {
        pub fn to_string(&self) -> String {
            *self
        }
    }
    impl Default for String {
        fn default() -> String {
            String { id: 0, secret: false }
        }
    }
    pub struct World {
        pub frames: u32,
        pub frame_seqs_ok: bool,
        pub next_frame_seq: u64,
        pub validation_frames: u32,
        pub started_frames: u32,
        pub started_before_send: bool,
        pub transport_error_frames: u32,
        pub secret_in_frame: bool,
        pub secret_in_dump: bool,
        pub dumps: u32,
        pub dump_answer: u8, // 0 disabled, 1 dumped (a frame), 2 failed
        pub posts: u32,
        pub sends: u32,
        pub sent_body: u8,
        pub sent_auth: Option<String>,
        pub sent_headers: u32,
        pub sent_header_value: Option<String>,
        pub send_ok: bool,
    }
    pub struct ValidationOptions;
    impl ValidationOptions {
        pub fn compat_missing_item_ids() -> Self {
            ValidationOptions
        }
        pub fn strict() -> Self {
            ValidationOptions
        }
    }
    pub struct ModelVal(pub String);
    impl ModelVal {
        pub fn as_str(&self) -> Option<&String> {
            Some(&self.0)
        }
    }
    pub struct Body {
        pub id: u8,
        pub model: Option<ModelVal>,
    }
    impl Body {
        pub fn to_string(&self) -> String {
            String { id: self.id, secret: false }
        }
        pub fn get(&self, key: &str) -> Option<&ModelVal> {
            self.model.as_ref()
        }
    }
    pub struct CreateResponsePayload {
        pub body: Body,
        pub errors: [String; 1],
        pub n_errors: usize,
    }
    impl CreateResponsePayload {
        pub fn errors(&self) -> &[String] {
            &self.errors[..self.n_errors]
        }
        pub fn body(&self) -> &Body {
            &self.body
        }
    }
    pub struct OpenResponsesConfig {
        pub endpoint: String,
        pub api_key: Option<String>,
        pub headers: [(String, String); 1],
        pub stateless_history: bool,
    }
    pub struct Uuid;
    impl Uuid {
        pub fn new_v4() -> Uuid {
            Uuid
        }
        pub fn to_string(&self) -> u8 {
            0
        }
    }
    pub fn now_ms() -> u64 {
        0
    }
    pub mod rip_kernel {
        use super::{StdString, String};
        pub enum ProviderEventStatus {
            Event,
        }
        pub enum EventKind {
            ProviderEvent {
                provider: StdString,
                status: ProviderEventStatus,
                event_name: Option<String>,
                data: Option<String>,
                raw: Option<String>,
                errors: Vec<String>,
                response_errors: Vec<String>,
            },
            OpenResponsesRequestStarted {
                endpoint: String,
                model: Option<String>,
                request_index: u64,
                kind: StdString,
            },
            OpenResponsesRequest {
                endpoint: String,
            },
            TransportError,
        }
    }
    pub use rip_kernel::EventKind;
    pub struct Event {
        pub id: u8,
        pub session_id: StdString,
        pub timestamp_ms: u64,
        pub seq: u64,
        pub kind: EventKind,
    }
    #[derive(Clone, Copy)]
    pub struct EventSink<'a> {
        pub w: *mut World,
        pub _p: core::marker::PhantomData<&'a ()>,
    }
    fn sec(o: &Option<String>) -> bool {
        match o {
            Some(s) => s.secret,
            None => false,
        }
    }
    impl<'a> EventSink<'a> {
        pub fn emit(&self, ev: Event) {
            let w = unsafe { &mut *self.w };
            w.frames += 1;
            if ev.seq != w.next_frame_seq {
                w.frame_seqs_ok = false;
            }
            w.next_frame_seq = ev.seq + 1;
            match &ev.kind {
                EventKind::ProviderEvent { raw, errors, event_name, data, .. } => {
                    w.validation_frames += 1;
                    if sec(raw) || sec(event_name) || sec(data) || (errors.len() > 0 && errors[0].secret) {
                        w.secret_in_frame = true;
                    }
                }
                EventKind::OpenResponsesRequestStarted { endpoint, model, .. } => {
                    w.started_frames += 1;
                    w.started_before_send = w.sends == 0;
                    if endpoint.secret || sec(model) {
                        w.secret_in_frame = true;
                    }
                }
                EventKind::OpenResponsesRequest { endpoint } => {
                    if endpoint.secret {
                        w.secret_in_frame = true;
                    }
                }
                EventKind::TransportError => {
                    w.transport_error_frames += 1;
                }
            }
            core::mem::forget(ev);
        }
    }
    pub struct ModelPath;
    pub mod openresponses_observability {
        use super::*;
        pub struct Cfg(pub *mut World);
        pub static mut DUMP_WORLD: *mut World = core::ptr::null_mut();
        pub fn request_dump_config_from_env() -> u8 {
            0
        }
        pub struct OpenResponsesRequestDumpInput<'a> {
            pub workspace_root: &'a ModelPath,
            pub session_id: &'a str,
            pub timestamp_ms: u64,
            pub seq: u64,
            pub endpoint: &'a String,
            pub request_index: u64,
            pub kind: &'a str,
            pub body: &'a Body,
        }
        pub fn maybe_dump_openresponses_request(_cfg: u8, input: OpenResponsesRequestDumpInput<'_>) -> Result<Option<Event>, StdString> {
            // the world is reached through the workspace-root model's owner: see ModelRoot below
            let w = unsafe { &mut *(*(input.workspace_root as *const ModelPath as *const ModelRoot)).1 };
            w.dumps += 1;
            if input.endpoint.secret {
                w.secret_in_dump = true;
            }
            match w.dump_answer {
                0 => Ok(None),
                1 => Ok(Some(Event { id: 0, session_id: StdString::new(), timestamp_ms: input.timestamp_ms, seq: input.seq,
                                     kind: EventKind::OpenResponsesRequest { endpoint: *input.endpoint } })),
                _ => Err(StdString::new()),
            }
        }
    }
    #[repr(C)]
    pub struct ModelRoot(pub ModelPath, pub *mut World);
    pub struct ModelHttp(pub *mut World);
    pub struct RequestBuilder(*mut World);
    impl ModelHttp {
        pub fn post(&self, endpoint: &String) -> RequestBuilder {
            let w = unsafe { &mut *self.0 };
            w.posts += 1;
            RequestBuilder(self.0)
        }
    }
    pub struct ModelResponse;
    pub struct ModelSendError;
    impl ModelSendError {
        pub fn to_string(&self) -> StdString {
            StdString::new()
        }
    }
    impl RequestBuilder {
        pub fn json(self, body: &Body) -> RequestBuilder {
            let w = unsafe { &mut *self.0 };
            w.sent_body = body.id;
            self
        }
        pub fn bearer_auth(self, key: &StrRef) -> RequestBuilder {
            let w = unsafe { &mut *self.0 };
            w.sent_auth = Some(key.0);
            self
        }
        pub fn header(self, _name: &String, value: &String) -> RequestBuilder {
            let w = unsafe { &mut *self.0 };
            w.sent_headers += 1;
            w.sent_header_value = Some(*value);
            self
        }
        pub fn send(self) -> Result<ModelResponse, ModelSendError> {
            let w = unsafe { &mut *self.0 };
            w.sends += 1;
            if w.send_ok {
                Ok(ModelResponse)
            } else {
                Err(ModelSendError)
            }
        }
    }
    pub struct ToolCallCollector;
    pub struct OpenResponsesSsePipe<'a> {
        seq: &'a mut u64,
        sink: EventSink<'a>,
    }
    impl<'a> OpenResponsesSsePipe<'a> {
        pub fn new(_sid: &str, seq: &'a mut u64, sink: EventSink<'a>, _c: Option<&'a mut ToolCallCollector>, _v: ValidationOptions) -> Self {
            OpenResponsesSsePipe { seq, sink }
        }
        pub fn emit_transport_error(&mut self, _e: StdString) {
            self.sink.emit(Event { id: 0, session_id: StdString::new(), timestamp_ms: 0, seq: *self.seq, kind: EventKind::TransportError });
            *self.seq += 1;
        }
    }
    pub struct OpenResponsesStreamRequest<'a> {
        pub http: &'a ModelHttp,
        pub config: &'a OpenResponsesConfig,
        pub workspace_root: &'a ModelPath,
        pub session_id: &'a str,
        pub payload: CreateResponsePayload,
        pub request_index: u64,
        pub request_kind: &'a str,
        pub seq: &'a mut u64,
        pub sink: EventSink<'a>,
        pub collector: &'a mut ToolCallCollector,
    }
    include!("/verif/harness/gen/request_gate_slice.rs");
}

macro_rules! c16_gate {
    ($name:ident, $invalid:expr) => {
        #[kani::proof]
        #[kani::unwind(4)]
        fn $name() {
            use request_gate::*;
            let seq0: u64 = kani::any();
            kani::assume(seq0 < u64::MAX - 8);
            let mut world = World { frames: 0, frame_seqs_ok: true, next_frame_seq: seq0, validation_frames: 0, started_frames: 0, started_before_send: false,
                                    transport_error_frames: 0, secret_in_frame: false, secret_in_dump: false, dumps: 0, dump_answer: kani::any(),
                                    posts: 0, sends: 0, sent_body: 0, sent_auth: None, sent_headers: 0, sent_header_value: None, send_ok: kani::any() };
            kani::assume(world.dump_answer < 3);
            let wp: *mut World = &mut world;
            let http = ModelHttp(wp);
            let has_key: bool = kani::any();
            let key = String { id: b'k', secret: true };
            let hval = String { id: b'h', secret: true };
            let config = OpenResponsesConfig { endpoint: String { id: b'e', secret: false }, api_key: if has_key { Some(key) } else { None },
                                               headers: [(String { id: b'n', secret: false }, hval)], stateless_history: kani::any() };
            let root = ModelRoot(ModelPath, wp);
            let has_model: bool = kani::any();
            let payload = CreateResponsePayload { body: Body { id: b'B', model: if has_model { Some(ModelVal(String { id: b'm', secret: false })) } else { None } },
                                                  errors: [String { id: b'E', secret: false }], n_errors: if $invalid { 1 } else { 0 } };
            let mut seq = seq0;
            let mut collector = ToolCallCollector;
            let req = OpenResponsesStreamRequest { http: &http, config: &config, workspace_root: &root.0, session_id: "s", payload, request_index: kani::any(),
                                                   request_kind: "k", seq: &mut seq, sink: EventSink { w: wp, _p: core::marker::PhantomData }, collector: &mut collector };
            let r = stream_request_head(req);
            let w = unsafe { &*wp };
            assert!(w.frame_seqs_ok && seq == seq0 + w.frames as u64, "the request's frames do not carry consecutive seq values / the counter does not advance by the number of frames");
            assert!(!w.secret_in_frame, "the api key or a secret header value reaches an event frame");
            assert!(!w.secret_in_dump, "the api key or a secret header value reaches the request dump");
            if $invalid {
                assert!(w.posts == 0 && w.sends == 0, "a request that fails schema validation was sent");
                assert!(r.is_err(), "a request that fails schema validation is not reported as an error");
                assert!(w.frames == 1 && w.validation_frames == 1, "a refused request does not leave exactly one provider-event frame with its errors");
                assert!(w.dumps == 0, "a refused request was dumped as if it had been sent");
            } else if w.dump_answer == 2 {
                assert!(w.sends == 0 && r.is_err(), "the request was sent although its dump failed");
            } else {
                assert!(w.posts == 1 && w.sends == 1, "a valid request is not sent exactly once");
                assert!(w.sent_body == b'B', "the body sent is not the validated payload's body");
                assert!(w.started_frames == 1 && w.started_before_send, "the request-started frame does not precede the send");
                assert!(w.sent_auth.is_some() == has_key, "the api key is not attached to the outgoing request exactly when configured");
                if let Some(a) = w.sent_auth {
                    assert!(a.id == b'k', "something else than the configured key is sent as bearer token");
                }
                assert!(w.sent_headers == 1 && w.sent_header_value.map(|v| v.id) == Some(b'h'), "the configured headers are not attached to the outgoing request");
                assert!(r.is_ok() == w.send_ok, "the transport outcome is misreported");
                assert!(w.transport_error_frames == if w.send_ok { 0 } else { 1 }, "a transport error does not leave exactly one error frame");
            }
            kani::cover!(if $invalid { w.validation_frames == 1 } else { r.is_ok() }, "request refused with its validation frame / request sent");
            kani::cover!(r.is_err(), "request refused or failed");
            core::mem::forget(r);
        }
    };
}
c16_gate!(c16_gate_invalid_payload, true);
c16_gate!(c16_gate_valid_payload, false);
// the same runs, registered under C19 for their taint assertions ("the api key or a secret header value reaches ...")
c16_gate!(c19_key_flow_invalid_payload, true);
c16_gate!(c19_key_flow_valid_payload, false);
