// Kani harnesses mounted into crates/ripd/src/session.rs (cfg(kani) only).
#![allow(unused_imports, dead_code, unused_assignments)]
use super::*;
include!("/verif/harness/common.rs");

// Slice-based harness families are selected per property at compile time (vcheck sets VERIF_SLICE_<id> to the family's
// file for the property being checked and to /verif/harness/empty.rs otherwise): a generated slice that no longer
// compiles after a source change makes only ITS property inconclusive, not every property checked in this crate.
include!(env!("VERIF_SLICE_C15"));
include!(env!("VERIF_SLICE_C06"));
include!(env!("VERIF_SLICE_C11"));
include!(env!("VERIF_SLICE_C07"));
include!(env!("VERIF_SLICE_C16"));
include!(env!("VERIF_SLICE_C19_GATE"));
include!(env!("VERIF_SLICE_C19"));

// C16 -- the collector's hand-over of completed function calls: `drain_function_calls` returns every completed call exactly
// once, ordered by the provider's output_index (arrival order among equal indices), and leaves nothing behind, so a second
// drain -- the next loop iteration -- cannot execute a call again. Real ToolCallCollector / FunctionCallItem; the three calls
// have ARBITRARY output_index values (duplicates, u64::MAX included); ids alias static bytes (no heap Strings to drop).
macro_rules! c16_drain {
    ($name:ident, $n:expr) => {
        #[kani::proof]
        #[kani::unwind(8)]
        #[kani::stub(std::hash::RandomState::new, stub_random_state_new)]
        fn $name() {
            let ids = ["A", "B", "C"];
            let idx: [u64; 3] = [kani::any(), kani::any(), kani::any()];
            let mut calls: Vec<FunctionCallItem> = Vec::with_capacity(3);
            let mut i = 0;
            while i < $n {
                calls.push(FunctionCallItem { output_index: idx[i], call_id: lit(ids[i]), item_id: None, name: lit("n"), arguments: lit("{}") });
                i += 1;
            }
            let mut c = ToolCallCollector { response_id: None, function_call_by_item_id: HashMap::new(), item_id_by_call_id: HashMap::new(),
                                            completed_function_calls: calls };
            let out = c.drain_function_calls();
            assert!(out.len() == $n, "drain_function_calls loses or duplicates a completed call");
            let mut seen = [0u8; 3];
            let mut k = 0;
            while k < $n {
                let b = out[k].call_id.as_bytes()[0];
                let pos = (b - b'A') as usize;
                seen[pos] += 1;
                assert!(out[k].output_index == idx[pos], "a call changed its output_index in the hand-over");
                if k + 1 < $n {
                    let nb = out[k + 1].call_id.as_bytes()[0];
                    assert!(out[k].output_index <= out[k + 1].output_index, "calls are not handed over in the provider's output order");
                    if out[k].output_index == out[k + 1].output_index {
                        assert!(b < nb, "calls with the same output_index are not handed over in arrival order");
                    }
                }
                k += 1;
            }
            k = 0;
            while k < $n {
                assert!(seen[k] == 1, "drain_function_calls loses or duplicates a completed call");
                k += 1;
            }
            let again = c.drain_function_calls();
            assert!(again.is_empty(), "a second drain hands the same calls out again");
            kani::cover!($n < 2 || idx[0] > idx[1], "calls arrived out of output order");
            core::mem::forget(out);
            core::mem::forget(again);
            core::mem::forget(c);
        }
    };
}
c16_drain!(c16_drain_n2, 2);
c16_drain!(c16_drain_n3, 3);
