// Kani harnesses mounted into crates/ripd/src/session.rs (cfg(kani) only).
#![allow(unused_imports, dead_code, unused_assignments)]
use super::*;
include!("/verif/harness/common.rs");

// Slice-based harness families are selected per property at compile time (vcheck sets VERIF_SLICE_<id> to the family's
// file for the property being checked and to /verif/harness/empty.rs otherwise): a generated slice that no longer
// compiles after a source change makes only ITS property inconclusive, not every property checked in this crate.
include!(env!("VERIF_SLICE_C15"));
include!(env!("VERIF_SLICE_C06"));
include!(env!("VERIF_SLICE_C11"));
include!(env!("VERIF_SLICE_C07"));
include!(env!("VERIF_SLICE_C16"));
