// Kani harnesses mounted into crates/ripd/src/session.rs (cfg(kani) only).
#![allow(unused_imports, dead_code)]
use super::*;
