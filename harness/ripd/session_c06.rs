// C06 harnesses, included at the end of harness/ripd/session.rs (module session::verif_kani).
//
// A subscriber that attaches at ANY moment relative to the producer's publish / record steps must receive every frame
// exactly once, in order. Kani is sequential; the interleaving is made a SYMBOLIC VARIABLE instead: the producer is the
// real body of `emit_event` / `TaskEmitter::emit` (source slice, gen/slice_stream_join.py) running over model channel /
// buffer / log objects, and every operation of those objects is a yield point at which a symbolic scheduler may let the
// subscriber execute its next step(s). The subscriber's steps run in the order they have in the real SSE handler
// (extracted from server.rs), and the frames it finally delivers are computed with the handler's own `last_seq`
// expression and drop predicate (extracted verbatim).
//
// Atomicity assumptions (the real objects' contracts): `broadcast::Sender::send` and `subscribe` are atomic w.r.t. each
// other; a receiver sees exactly the frames sent after its subscribe; `events_snapshot` takes the buffer mutex, so it
// cannot run while the producer holds the guard; nothing lags (channel capacity is not exceeded).
mod stream_join {
    #![allow(unused, non_camel_case_types)]
    pub const STEP_SUBSCRIBE: u8 = 1;
    pub const STEP_SNAPSHOT: u8 = 2;
    pub const CAP: usize = 4;

    pub struct World {
        pub sent: [u64; CAP],
        pub n_sent: usize,
        pub buf: [u64; CAP],
        pub n_buf: usize,
        pub logged: usize,
        pub buf_locked: bool,
        pub steps: [u8; 2],
        pub sub_pc: usize,
        pub sub_from: usize,
        pub hist: [u64; CAP],
        pub n_hist: usize,
        pub attached_mid_emit: bool,
        pub in_emit: bool,
        // second producer on the same task stream (e.g. the stderr pump next to the stdout pump): its whole emit runs,
        // once, at a symbolic yield point of the first producer at which the mutexes it needs are free
        pub emitter: *const ModelTaskEmitter,
        pub b_pending: bool,
        pub b_running: bool,
        pub b_ran_inside_a: bool,
        pub seq_locked: bool,
    }
    impl World {
        pub fn new(steps: [u8; 2]) -> World {
            World { sent: [0; CAP], n_sent: 0, buf: [0; CAP], n_buf: 0, logged: 0, buf_locked: false, steps, sub_pc: 0, sub_from: 0,
                    hist: [0; CAP], n_hist: 0, attached_mid_emit: false, in_emit: false,
                    emitter: core::ptr::null(), b_pending: false, b_running: false, b_ran_inside_a: false, seq_locked: false }
        }
        fn run_step(&mut self, step: u8) {
            if step == STEP_SUBSCRIBE {
                self.sub_from = self.n_sent;
            } else {
                let mut i = 0;
                while i < CAP {
                    self.hist[i] = self.buf[i];
                    i += 1;
                }
                self.n_hist = self.n_buf;
            }
            if self.in_emit {
                self.attached_mid_emit = true;
            }
        }
        // the scheduler: the subscriber may take 0, 1 or 2 of its remaining steps here
        pub fn yield_point(&mut self) {
            if self.b_running {
                return; // the second producer's emit is run as one block
            }
            if self.b_pending && !self.seq_locked && !self.buf_locked && kani::any::<bool>() {
                self.b_pending = false;
                self.b_running = true;
                if self.in_emit {
                    self.b_ran_inside_a = true;
                }
                unsafe { (*self.emitter).emit_slice(EventKind(1)) };
                self.b_running = false;
            }
            let mut k = 0;
            while k < 2 {
                if self.sub_pc >= 2 || !kani::any::<bool>() {
                    break;
                }
                let step = self.steps[self.sub_pc];
                if step == STEP_SNAPSHOT && self.buf_locked {
                    break; // events_snapshot needs the buffer mutex
                }
                self.run_step(step);
                self.sub_pc += 1;
                k += 1;
            }
        }
        pub fn finish_subscriber(&mut self) {
            while self.sub_pc < 2 {
                let step = self.steps[self.sub_pc];
                self.run_step(step);
                self.sub_pc += 1;
            }
        }
    }

    // ---- model stand-ins for the types named in the sliced bodies ----
    #[derive(Clone, Copy)]
    pub struct ModelId;
    #[derive(Clone, Copy)]
    pub struct EventKind(pub u8);
    #[derive(Clone)]
    pub struct Event {
        pub id: ModelId,
        pub session_id: ModelId,
        pub timestamp_ms: u64,
        pub seq: u64,
        pub kind: EventKind,
    }
    pub struct Uuid;
    impl Uuid {
        pub fn new_v4() -> Uuid {
            Uuid
        }
        pub fn to_string(&self) -> ModelId {
            ModelId
        }
    }
    pub fn now_ms() -> u64 {
        kani::any()
    }
    pub struct ModelSender(pub *mut World);
    impl ModelSender {
        pub fn send(&self, e: Event) -> Result<usize, ()> {
            let w = unsafe { &mut *self.0 };
            w.yield_point();
            if w.n_sent < CAP {
                w.sent[w.n_sent] = e.seq;
                w.n_sent += 1;
            }
            w.yield_point();
            Ok(1)
        }
    }
    pub struct ModelBuffer(pub *mut World);
    pub struct ModelGuard(*mut World);
    impl ModelBuffer {
        pub fn lock(&self) -> ModelGuard {
            let w = unsafe { &mut *self.0 };
            w.yield_point();
            w.buf_locked = true;
            ModelGuard(self.0)
        }
    }
    impl ModelGuard {
        pub fn push(&mut self, e: Event) {
            let w = unsafe { &mut *self.0 };
            w.yield_point(); // only `subscribe` can run here (mutex held)
            if w.n_buf < CAP {
                w.buf[w.n_buf] = e.seq;
                w.n_buf += 1;
            }
            w.yield_point();
        }
    }
    impl Drop for ModelGuard {
        fn drop(&mut self) {
            let w = unsafe { &mut *self.0 };
            w.buf_locked = false;
            w.yield_point();
        }
    }
    pub struct ModelLog(pub *mut World);
    impl ModelLog {
        pub fn append(&self, _e: &Event) -> Result<(), ()> {
            let w = unsafe { &mut *self.0 };
            w.yield_point();
            w.logged += 1;
            w.yield_point();
            Ok(())
        }
    }
    pub struct ModelSeqMutex(pub core::cell::UnsafeCell<u64>, pub *mut World);
    pub struct ModelSeqGuard<'a>(&'a core::cell::UnsafeCell<u64>, *mut World);
    impl ModelSeqMutex {
        pub fn lock(&self) -> ModelSeqGuard<'_> {
            let w = unsafe { &mut *self.1 };
            w.yield_point();
            w.seq_locked = true;
            ModelSeqGuard(&self.0, self.1)
        }
    }
    impl<'a> Drop for ModelSeqGuard<'a> {
        fn drop(&mut self) {
            let w = unsafe { &mut *self.1 };
            w.seq_locked = false;
            w.yield_point();
        }
    }
    impl<'a> core::ops::Deref for ModelSeqGuard<'a> {
        type Target = u64;
        fn deref(&self) -> &u64 {
            unsafe { &*self.0.get() }
        }
    }
    impl<'a> core::ops::DerefMut for ModelSeqGuard<'a> {
        fn deref_mut(&mut self) -> &mut u64 {
            unsafe { &mut *self.0.get() }
        }
    }
    pub struct ModelTaskEmitter {
        pub task_id: ModelId,
        pub sender: ModelSender,
        pub events: ModelBuffer,
        pub seq: ModelSeqMutex,
        pub event_log: ModelLog,
    }
    include!("/verif/harness/gen/stream_join_slice.rs");

    // what the subscriber finally delivers: the history snapshot, then the live frames the handler does not drop
    pub fn delivered(w: &World, last_seq_of: fn(&[Event]) -> Option<u64>, dropped: fn(Option<u64>, &Event) -> bool, out: &mut [u64; 8]) -> usize {
        let mk = |seq: u64| Event { id: ModelId, session_id: ModelId, timestamp_ms: 0, seq, kind: EventKind(0) };
        let hist: [Event; CAP] = [mk(w.hist[0]), mk(w.hist[1]), mk(w.hist[2]), mk(w.hist[3])];
        let last = last_seq_of(&hist[..w.n_hist]);
        let mut n = 0;
        let mut i = 0;
        while i < w.n_hist {
            out[n] = w.hist[i];
            n += 1;
            i += 1;
        }
        let mut j = w.sub_from;
        while j < w.n_sent {
            let e = mk(w.sent[j]);
            if !dropped(last, &e) {
                out[n] = w.sent[j];
                n += 1;
            }
            j += 1;
        }
        n
    }
}

fn join_check_delivery(w: &stream_join::World, s0: u64, frames: usize, last_seq_of: fn(&[stream_join::Event]) -> Option<u64>,
                      dropped: fn(Option<u64>, &stream_join::Event) -> bool) {
    let mut out = [0u64; 8];
    let n = stream_join::delivered(w, last_seq_of, dropped, &mut out);
    // every frame of the stream exactly once, in increasing seq order
    let mut i = 0;
    while i < frames {
        let want = s0 + i as u64;
        let mut count = 0;
        let mut k = 0;
        while k < n {
            if out[k] == want {
                count += 1;
            }
            k += 1;
        }
        assert!(count >= 1, "a frame is missing at the join between history and live delivery");
        assert!(count <= 1, "a frame is delivered twice at the join between history and live delivery");
        i += 1;
    }
    assert!(n == frames, "the subscriber received something that is not a frame of the stream");
    let mut k = 1;
    while k < n {
        assert!(out[k - 1] < out[k], "frames delivered out of seq order");
        k += 1;
    }
}

// session stream: producer = emit_event (session.rs), subscriber = stream_events (server.rs)
macro_rules! c06_session_join {
    ($name:ident, $frames:expr, $unwind:expr) => {
#[kani::proof]
#[kani::unwind($unwind)]
fn $name() {
    use stream_join::*;
    let mut w = World::new(SESSION_SUBSCRIBER_STEPS);
    let wp: *mut World = &mut w;
    let s0: u64 = kani::any();
    kani::assume(s0 < u64::MAX - 4);
    let sender = ModelSender(wp);
    let buffer = ModelBuffer(wp);
    let log = ModelLog(wp);
    let mut f = 0u64;
    while f < $frames {
        unsafe { (*wp).yield_point() };
        unsafe { (*wp).in_emit = true };
        emit_event_slice(Event { id: ModelId, session_id: ModelId, timestamp_ms: 0, seq: s0 + f, kind: EventKind(0) }, &sender, &buffer, &log);
        unsafe { (*wp).in_emit = false };
        f += 1;
    }
    unsafe { (*wp).yield_point() };
    let w = unsafe { &mut *wp };
    w.finish_subscriber();
    assert!(w.n_sent == $frames && w.n_buf == $frames && w.logged == $frames, "a frame was not published, recorded and logged exactly once");
    join_check_delivery(w, s0, $frames, session_last_seq, session_live_frame_dropped);
    kani::cover!(w.attached_mid_emit, "subscriber step taken in the middle of an emit");
    kani::cover!(w.n_hist == 1, "attached between the two frames");
    kani::cover!(w.n_hist == 0 && w.sub_from == 0, "attached before the stream started");
    kani::cover!(w.n_hist == $frames && w.sub_from == $frames, "attached after the stream ended");
}
    };
}
c06_session_join!(c06_session_join_2frames, 2, 10);
c06_session_join!(c06t_session_join_3frames, 3, 12);

// task stream: producer = TaskEmitter::emit (tasks/mod.rs), subscriber = stream_task_events (server.rs)
macro_rules! c06_task_join {
    ($name:ident, $frames:expr, $unwind:expr) => {
#[kani::proof]
#[kani::unwind($unwind)]
fn $name() {
    use stream_join::*;
    let mut w = World::new(TASK_SUBSCRIBER_STEPS);
    let wp: *mut World = &mut w;
    let s0: u64 = kani::any();
    kani::assume(s0 < u64::MAX - 4);
    let em = ModelTaskEmitter { task_id: ModelId, sender: ModelSender(wp), events: ModelBuffer(wp), seq: ModelSeqMutex(core::cell::UnsafeCell::new(s0), wp), event_log: ModelLog(wp) };
    let mut f = 0u64;
    while f < $frames {
        unsafe { (*wp).yield_point() };
        unsafe { (*wp).in_emit = true };
        em.emit_slice(EventKind(0));
        unsafe { (*wp).in_emit = false };
        f += 1;
    }
    unsafe { (*wp).yield_point() };
    let w = unsafe { &mut *wp };
    w.finish_subscriber();
    assert!(w.n_sent == $frames && w.n_buf == $frames && w.logged == $frames, "a frame was not published, recorded and logged exactly once");
    assert!(w.sent[0] == s0 && w.sent[1] == s0 + 1, "task frames not numbered contiguously from the counter");
    join_check_delivery(w, s0, $frames, task_last_seq, task_live_frame_dropped);
    kani::cover!(w.attached_mid_emit, "subscriber step taken in the middle of an emit");
    kani::cover!(w.n_hist == 1, "attached between the two frames");
}
    };
}
c06_task_join!(c06_task_join_2frames, 2, 10);
c06_task_join!(c06t_task_join_3frames, 3, 12);

// task stream with TWO producers (the stdout and stderr pumps, the driver's status frames, ... share one TaskEmitter):
// the second producer's whole emit is placed by the solver at any yield point of the first one's emit at which the seq
// and buffer mutexes are free (or before / after it). Frames must be recorded and published in seq order, and a
// subscriber attaching anywhere still receives each exactly once, in order.
#[kani::proof]
#[kani::unwind(10)]
fn c06_task_two_producers() {
    use stream_join::*;
    let mut w = World::new(TASK_SUBSCRIBER_STEPS);
    let wp: *mut World = &mut w;
    let s0: u64 = kani::any();
    kani::assume(s0 < u64::MAX - 4);
    let em = ModelTaskEmitter { task_id: ModelId, sender: ModelSender(wp), events: ModelBuffer(wp), seq: ModelSeqMutex(core::cell::UnsafeCell::new(s0), wp), event_log: ModelLog(wp) };
    unsafe {
        (*wp).emitter = &em as *const ModelTaskEmitter;
        (*wp).b_pending = true;
        (*wp).yield_point();
        (*wp).in_emit = true;
    }
    em.emit_slice(EventKind(0));
    unsafe {
        (*wp).in_emit = false;
        (*wp).yield_point();
    }
    let w = unsafe { &mut *wp };
    if w.b_pending {
        // the second producer comes last
        w.b_pending = false;
        w.b_running = true;
        em.emit_slice(EventKind(1));
        w.b_running = false;
    }
    w.finish_subscriber();
    assert!(w.n_sent == 2 && w.n_buf == 2 && w.logged == 2, "a frame was not published, recorded and logged exactly once");
    assert!(w.buf[0] == s0 && w.buf[1] == s0 + 1, "task frames are not recorded in seq order (seq allocation is not atomic with recording)");
    assert!(w.sent[0] == s0 && w.sent[1] == s0 + 1, "task frames are not published in seq order (seq allocation is not atomic with publishing)");
    join_check_delivery(w, s0, 2, task_last_seq, task_live_frame_dropped);
    kani::cover!(w.n_hist == 1, "subscriber attached between the two producers' frames");
    kani::cover!(w.n_sent == 2, "both producers emitted");
}
