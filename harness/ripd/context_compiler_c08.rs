// C08 harness over a source slice, included from harness/ripd/context_compiler.rs when VERIF_SLICE_C08 selects it.
// The recent-message window of a compiled context: the WHOLE text of select_recent_messages and select_recent_messages_after_seq
// (gen/slice_select_recent.py, verbatim) over model frames -- `Vec` array-backed (push / len / reverse), `String` a one-byte id,
// `Event` / `EventKind` with the real field / variant names. On the compiled functions a history of 2 frames ran out of memory
// (in-place reverse of a heap Vec of 5-String structs with symbolic length); over the models 4-frame histories take seconds.
mod window_model {
    #![allow(unused)]
    pub const WCAP: usize = 4;
    #[derive(Clone, Copy, PartialEq, Debug)]
    pub struct String(pub u8);
    #[derive(Clone, Copy)]
    pub enum EventKind {
        ContinuityMessageAppended { actor_id: String, origin: String, content: String },
        ContinuityRunEnded { run_session_id: String, message_id: String },
        Other,
    }
    #[derive(Clone, Copy)]
    pub struct Event {
        pub id: String,
        pub seq: u64,
        pub kind: EventKind,
    }
    #[derive(Clone, Copy, PartialEq, Debug)]
    pub struct SelectedMessage {
        pub seq: u64,
        pub event_id: String,
        pub actor_id: String,
        pub origin: String,
        pub content: String,
    }
    pub struct Vec<T: Copy> {
        pub d: [Option<T>; WCAP],
        pub len: usize,
    }
    impl<T: Copy> Vec<T> {
        pub fn new() -> Self {
            Vec { d: [None; WCAP], len: 0 }
        }
        pub fn push(&mut self, v: T) {
            assert!(self.len < WCAP, "MODEL: Vec capacity exceeded");
            self.d[self.len] = Some(v);
            self.len += 1;
        }
        pub fn len(&self) -> usize {
            self.len
        }
        pub fn is_empty(&self) -> bool {
            self.len == 0
        }
        pub fn reverse(&mut self) {
            let old = self.d;
            let mut i = 0;
            while i < WCAP {
                if i < self.len {
                    self.d[i] = old[self.len - 1 - i];
                }
                i += 1;
            }
        }
        pub fn at(&self, i: usize) -> T {
            match self.d[i] {
                Some(v) => v,
                None => panic!("MODEL: hole in Vec"),
            }
        }
    }
    include!("/verif/harness/gen/select_recent_slice.rs");
}

fn k08_any_history() -> [window_model::Event; 4] {
    use window_model::*;
    let mk = |i: u8| -> Event {
        let is_msg: bool = kani::any();
        Event {
            id: String(b'a' + i),
            seq: kani::any(),
            kind: if is_msg { EventKind::ContinuityMessageAppended { actor_id: String(b'u'), origin: String(b'o'), content: String(b'0' + i) } } else { EventKind::Other },
        }
    };
    [mk(0), mk(1), mk(2), mk(3)]
}

macro_rules! c08_window {
    ($name:ident, $after:expr) => {
        #[kani::proof]
        #[kani::unwind(7)]
        fn $name() {
            use window_model::*;
            let h = k08_any_history();
            let n: usize = kani::any();
            kani::assume(n <= 4);
            let from_seq: u64 = kani::any();
            let after_seq: u64 = if $after { kani::any() } else { 0 };
            let limit: usize = kani::any();
            kani::assume(limit <= 5);
            let got = if $after { select_recent_messages_after_seq(&h[..n], from_seq, after_seq, limit) } else { select_recent_messages(&h[..n], from_seq, limit) };
            // reference: the qualifying frames in stream order; the window is the LAST `limit` of them
            let mut q = [false; 4];
            let mut total = 0usize;
            let mut i = 0;
            while i < 4 {
                if i < n {
                    let in_range = h[i].seq <= from_seq && (!$after || h[i].seq > after_seq);
                    if in_range && matches!(h[i].kind, EventKind::ContinuityMessageAppended { .. }) {
                        q[i] = true;
                        total += 1;
                    }
                }
                i += 1;
            }
            let want = if total < limit { total } else { limit };
            assert!(got.len() == want, "the window does not hold min(limit, qualifying messages) messages");
            let skip = total - want;
            let mut seen = 0usize;
            let mut k = 0usize;
            i = 0;
            while i < 4 {
                if q[i] {
                    if seen >= skip {
                        let m = got.at(k);
                        assert!(m.seq == h[i].seq && m.event_id == h[i].id && m.content == String(b'0' + i as u8) && m.actor_id == String(b'u') && m.origin == String(b'o'),
                                "the window is not the most recent qualifying messages in stream order, each with its own fields");
                        k += 1;
                    }
                    seen += 1;
                }
                i += 1;
            }
            kani::cover!(total == 3 && want == 2, "three qualifying messages, window of two");
            kani::cover!(n == 4 && total == 1, "one qualifying message among four frames");
        }
    };
}
c08_window!(c08_window_recent_4frames, false);
c08_window!(c08_window_after_seq_4frames, true);
