// Kani harnesses mounted into crates/ripd/src/compaction_checkpoint_index.rs (cfg(kani) only).
#![allow(unused_imports, dead_code)]
use super::*;
