// Kani harnesses mounted into crates/ripd/src/message_ordinal_index.rs (cfg(kani) only).
#![allow(unused_imports, dead_code)]
use super::*;
