// C19 harnesses, included from harness/ripd/session.rs when VERIF_SLICE_C19 selects them (module session::verif_kani).
// What is decided is LOCAL information flow of the configured secrets through three pieces of code, with the texts typed by a
// model string that carries a SECRET taint: (1) c19_key_flow_* -- the head of stream_openresponses_request (the C16 gate
// slice, harness/ripd/session_c16.rs, selected through VERIF_SLICE_C19_GATE): the key reaches bearer_auth / header of the
// outgoing request and no frame or dump input; (2) c19_doctor_summary -- the statement of config_doctor that builds the
// diagnostic summary (gen/slice_doctor.py); (3) c19_source_description -- the real ApiKeySource::description.
mod doctor {
    #![allow(unused)]
    #[derive(Clone, Copy, PartialEq, Debug)]
    pub struct String {
        pub id: u8,
        pub secret: bool,
        pub blank: bool,
    }
    #[repr(transparent)]
    pub struct StrRef(pub String);
    impl core::ops::Deref for String {
        type Target = StrRef;
        fn deref(&self) -> &StrRef {
            unsafe { &*(self as *const String as *const StrRef) }
        }
    }
    impl StrRef {
        pub fn trim(&self) -> &StrRef {
            self
        }
        pub fn is_empty(&self) -> bool {
            self.0.blank
        }
    }
    pub struct OpenResponsesResolvedConfig {
        pub provider_id: Option<String>,
        pub route: Option<String>,
        pub endpoint: String,
        pub model: Option<String>,
        pub headers: [(String, String); 2],
        pub api_key: Option<String>,
        pub api_key_source: Option<String>,
        pub stateless_history: bool,
        pub parallel_tool_calls: bool,
        pub followup_user_message: Option<String>,
    }
    pub struct ConfigDoctorOpenResponses {
        pub provider_id: Option<String>,
        pub route: Option<String>,
        pub endpoint: String,
        pub model: Option<String>,
        pub has_api_key: bool,
        pub api_key_source: Option<String>,
        pub headers: Vec<String>,
        pub stateless_history: bool,
        pub parallel_tool_calls: bool,
        pub followup_user_message: Option<String>,
    }
    include!("/verif/harness/gen/doctor_summary_slice.rs");
}

#[kani::proof]
#[kani::unwind(4)]
fn c19_doctor_summary() {
    use doctor::*;
    let t = |id: u8| String { id, secret: false, blank: kani::any() };
    let opt = |id: u8| if kani::any() { Some(t(id)) } else { None };
    let key = String { id: b'K', secret: true, blank: kani::any() };
    let has_key: bool = kani::any();
    let cfg = OpenResponsesResolvedConfig {
        provider_id: opt(b'p'), route: opt(b'r'), endpoint: t(b'e'), model: opt(b'm'),
        headers: [(t(b'1'), String { id: b'V', secret: true, blank: false }), (t(b'2'), String { id: b'W', secret: true, blank: false })],
        api_key: if has_key { Some(key) } else { None }, api_key_source: opt(b's'),
        stateless_history: kani::any(), parallel_tool_calls: kani::any(), followup_user_message: opt(b'f'),
    };
    let present: bool = kani::any();
    let out = doctor_summary(if present { Some(cfg) } else { None });
    match &out {
        None => assert!(!present, "a resolved provider configuration yields no diagnostic summary"),
        Some(s) => {
            let sec = |o: &Option<String>| match o {
                Some(x) => x.secret,
                None => false,
            };
            assert!(!sec(&s.provider_id) && !sec(&s.route) && !s.endpoint.secret && !sec(&s.model) && !sec(&s.api_key_source) && !sec(&s.followup_user_message),
                    "the diagnostic summary carries the api key or a secret header value in a text field");
            assert!(s.headers.len() == 2 && !s.headers[0].secret && !s.headers[1].secret && s.headers[0].id == b'1' && s.headers[1].id == b'2',
                    "the diagnostic summary lists something else than the header NAMES");
            assert!(s.has_api_key == (has_key && !key.blank), "has_api_key does not report whether a non-blank key is configured");
            kani::cover!(s.has_api_key, "summary of a configuration with a key");
        }
    }
    core::mem::forget(out);
}

// the real ApiKeySource::description (config.rs): for an INLINE key the description is the constant "inline" whatever the key is
#[kani::proof]
#[kani::unwind(8)]
#[kani::stub(std::fmt::format, stub_fmt_format)]
fn c19_source_description_inline() {
    let b: [u8; 2] = kani::any();
    kani::assume(b[0] < 0x80 && b[1] < 0x80);
    let mut s = String::with_capacity(2);
    s.push(b[0] as char);
    s.push(b[1] as char);
    let src = crate::config::ApiKeySource::Inline(s);
    let d = src.description();
    let db = d.as_bytes();
    assert!(db.len() == 6 && db[0] == b'i' && db[1] == b'n' && db[2] == b'l' && db[3] == b'i' && db[4] == b'n' && db[5] == b'e',
            "the description of an inline key source depends on (or contains) the key");
    kani::cover!(b[0] == b'i', "some key");
    core::mem::forget(d);
    core::mem::forget(src);
}
