// Kani harnesses mounted into crates/ripd/src/tasks/mod.rs (cfg(kani) only).
#![allow(unused_imports, dead_code)]
use super::*;
