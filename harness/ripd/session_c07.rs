// C07 harnesses, included from harness/ripd/session.rs when VERIF_SLICE_C07 selects them (module session::verif_kani).
//
// The TAIL of run_session (gen/slice_run_tail.py: from the kernel-drain block to the append_run_ended call, verbatim,
// `.await` removed) over model objects: every spawned run that is attached to a thread ends with exactly one run-ended
// frame, which FOLLOWS the run's own terminal session frame and carries that frame's reason; the session stream ends with
// exactly one end frame. The two entry states of the tail are shapes: (a) nothing ended the session yet, the kernel session
// still has its closing frames to deliver (skip_runtime_loop == false); (b) the provider path already emitted the end frame
// (skip_runtime_loop == true). That these are the only two entry states is an ASSUMPTION about the part of run_session that
// is not sliced (each `skip_runtime_loop = true` stands next to an emitted SessionEnded frame).
mod run_tail {
    #![allow(unused)]
    use core::cell::UnsafeCell;
    pub struct World {
        pub effects: u32,
        pub ended_frames: u32,
        pub last_ended_at: u32,
        pub last_ended_reason: u8,
        pub snapshot_at: u32,
        pub snapshot_saw_end: bool,
        pub run_ended: u32,
        pub run_ended_at: u32,
        pub run_ended_reason: u8,
        pub run_ended_ids_ok: bool,
    }
    #[derive(Clone, Copy)]
    pub struct ModelUnit;
    #[derive(Clone, Copy, PartialEq)]
    pub struct ModelId(pub u8);
    pub enum EventKind {
        SessionEnded { reason: String },
        Other,
    }
    pub struct ModelEvent {
        pub seq: u64,
        pub kind: EventKind,
    }
    pub struct ModelLink {
        pub continuity_id: ModelId,
        pub message_id: ModelId,
        pub actor_id: ModelId,
        pub origin: ModelId,
    }
    pub struct ModelBox<T>(pub T);
    impl<T> core::ops::Deref for ModelBox<T> {
        type Target = T;
        fn deref(&self) -> &T {
            &self.0
        }
    }
    // the kernel session: `pending` ordinary frames, then its end frame (reason "k"), then nothing
    pub struct ModelKernelSession {
        pub pending: u8,
        pub done: bool,
        pub seq: u64,
    }
    impl ModelKernelSession {
        pub fn next_event(&mut self) -> Option<ModelEvent> {
            if self.done {
                return None;
            }
            self.seq += 1;
            if self.pending > 0 {
                self.pending -= 1;
                Some(ModelEvent { seq: self.seq, kind: EventKind::Other })
            } else {
                self.done = true;
                Some(ModelEvent { seq: self.seq, kind: EventKind::SessionEnded { reason: super::lit("k") } })
            }
        }
    }
    pub struct BufInner {
        pub data: [ModelEvent; 4],
        pub len: usize,
    }
    pub struct ModelBuffer(pub UnsafeCell<BufInner>, pub *mut World);
    pub struct ModelBufGuard<'a>(&'a UnsafeCell<BufInner>);
    impl ModelBuffer {
        pub fn lock(&self) -> ModelBufGuard<'_> {
            ModelBufGuard(&self.0)
        }
    }
    impl<'a> core::ops::Deref for ModelBufGuard<'a> {
        type Target = [ModelEvent];
        fn deref(&self) -> &[ModelEvent] {
            let b = unsafe { &*self.0.get() };
            &b.data[..b.len]
        }
    }
    fn reason_byte(s: &String) -> u8 {
        if s.len() == 1 {
            s.as_bytes()[0]
        } else {
            b'?'
        }
    }
    pub fn emit_event(event: ModelEvent, _sender: &ModelUnit, events: &ModelBuffer, _log: &ModelUnit) {
        let w = unsafe { &mut *events.1 };
        w.effects += 1;
        if let EventKind::SessionEnded { reason } = &event.kind {
            w.ended_frames += 1;
            w.last_ended_at = w.effects;
            w.last_ended_reason = reason_byte(reason);
        }
        let b = unsafe { &mut *events.0.get() };
        if b.len < 4 {
            let old = core::mem::replace(&mut b.data[b.len], event);
            core::mem::forget(old);
            b.len += 1;
        } else {
            core::mem::forget(event);
        }
    }
    pub fn write_snapshot(_dir: &ModelUnit, _id: &ModelId, events: &ModelBufGuard<'_>) -> Result<(), ()> {
        // the guard does not carry the world pointer; the harness reads the snapshot facts from the buffer afterwards
        Ok(())
    }
    pub struct ModelStore(pub *mut World);
    impl ModelStore {
        pub fn append_run_ended(&self, thread: &ModelId, message: &ModelId, session: &ModelId, reason: String, actor: ModelId, origin: ModelId) -> Result<ModelId, ()> {
            let w = unsafe { &mut *self.0 };
            w.effects += 1;
            w.run_ended += 1;
            w.run_ended_at = w.effects;
            w.run_ended_reason = reason_byte(&reason);
            w.run_ended_ids_ok = thread.0 == b't' && message.0 == b'm' && session.0 == b's' && actor.0 == b'u' && origin.0 == b'o';
            core::mem::forget(reason);
            Ok(ModelId(b'e'))
        }
    }
    include!("/verif/harness/gen/run_tail_slice.rs");
}

macro_rules! c07_run_tail {
    ($name:ident, $provider_ended:expr) => {
        #[kani::proof]
        #[kani::unwind(6)]
        #[kani::stub(std::fmt::format, stub_fmt_format)]
        fn $name() {
            use run_tail::*;
            let mut w = World { effects: 0, ended_frames: 0, last_ended_at: 0, last_ended_reason: 0, snapshot_at: 0, snapshot_saw_end: false,
                                run_ended: 0, run_ended_at: 0, run_ended_reason: 0, run_ended_ids_ok: false };
            let wp: *mut World = &mut w;
            let mk_other = || ModelEvent { seq: 0, kind: EventKind::Other };
            let events = ModelBuffer(core::cell::UnsafeCell::new(BufInner { data: [mk_other(), mk_other(), mk_other(), mk_other()], len: 0 }), wp);
            // frames recorded before the tail: the start frame, and in shape (b) the provider path's end frame (reason "p")
            emit_event(ModelEvent { seq: 0, kind: EventKind::Other }, &ModelUnit, &events, &ModelUnit);
            if $provider_ended {
                emit_event(ModelEvent { seq: 1, kind: EventKind::SessionEnded { reason: lit("p") } }, &ModelUnit, &events, &ModelUnit);
            }
            let pending: u8 = kani::any();
            kani::assume(pending <= 1);
            let session = ModelKernelSession { pending, done: false, seq: 1 };
            let linked: bool = kani::any();
            let link = if linked { Some(ModelLink { continuity_id: ModelId(b't'), message_id: ModelId(b'm'), actor_id: ModelId(b'u'), origin: ModelId(b'o') }) } else { None };
            run_session_tail($provider_ended, session, ModelUnit, events, ModelUnit, ModelBox(ModelUnit), ModelId(b'x'), ModelId(b's'), link, ModelBox(ModelStore(wp)));
            let w = unsafe { &*wp };
            assert!(w.ended_frames == 1, "the session stream does not end with exactly one end frame");
            if linked {
                assert!(w.run_ended == 1, "a spawned run attached to a thread does not end with exactly one run-ended frame");
                assert!(w.run_ended_at > w.last_ended_at, "the run-ended frame does not follow the run's own terminal session frame");
                assert!(w.run_ended_reason == w.last_ended_reason, "the run-ended frame does not carry the reason of the run's terminal session frame");
                assert!(w.run_ended_ids_ok, "the run-ended frame names another thread / message / session / actor");
            } else {
                assert!(w.run_ended == 0, "a run-ended frame was written for a session that is not attached to a thread");
            }
            kani::cover!(linked && w.run_ended_reason == if $provider_ended { b'p' } else { b'k' }, "linked run ended with the expected reason");
            kani::cover!(!linked, "unattached session");
        }
    };
}
c07_run_tail!(c07_run_tail_kernel_end, false);
c07_run_tail!(c07_run_tail_provider_end, true);
