// C07 harnesses, included from harness/ripd/session.rs when VERIF_SLICE_C07 selects them (module session::verif_kani).
//
// The TAIL of run_session (gen/slice_run_tail.py: from the kernel-drain block to the append_run_ended call, verbatim,
// `.await` removed) over model objects: every spawned run that is attached to a thread ends with exactly one run-ended
// frame, which FOLLOWS the run's own terminal session frame and carries that frame's reason; the session stream ends with
// exactly one end frame. The two entry states of the tail are shapes: (a) nothing ended the session yet, the kernel session
// still has its closing frames to deliver (skip_runtime_loop == false); (b) the provider path already emitted the end frame
// (skip_runtime_loop == true). That these are the only two entry states is an ASSUMPTION about the part of run_session that
// is not sliced (each `skip_runtime_loop = true` stands next to an emitted SessionEnded frame).
mod run_tail {
    #![allow(unused)]
    use core::cell::UnsafeCell;
    pub struct World {
        pub effects: u32,
        pub ended_frames: u32,
        pub last_ended_at: u32,
        pub last_ended_reason: u8,
        pub snapshot_at: u32,
        pub snapshot_saw_end: bool,
        pub run_ended: u32,
        pub run_ended_at: u32,
        pub run_ended_reason: u8,
        pub run_ended_ids_ok: bool,
    }
    #[derive(Clone, Copy)]
    pub struct ModelUnit;
    #[derive(Clone, Copy, PartialEq)]
    pub struct ModelId(pub u8);
    pub enum EventKind {
        SessionEnded { reason: String },
        Other,
    }
    pub struct ModelEvent {
        pub seq: u64,
        pub kind: EventKind,
    }
    pub struct ModelLink {
        pub continuity_id: ModelId,
        pub message_id: ModelId,
        pub actor_id: ModelId,
        pub origin: ModelId,
    }
    pub struct ModelBox<T>(pub T);
    impl<T> core::ops::Deref for ModelBox<T> {
        type Target = T;
        fn deref(&self) -> &T {
            &self.0
        }
    }
    // the kernel session: `pending` ordinary frames, then its end frame (reason "k"), then nothing
    pub struct ModelKernelSession {
        pub pending: u8,
        pub done: bool,
        pub seq: u64,
    }
    impl ModelKernelSession {
        pub fn next_event(&mut self) -> Option<ModelEvent> {
            if self.done {
                return None;
            }
            self.seq += 1;
            if self.pending > 0 {
                self.pending -= 1;
                Some(ModelEvent { seq: self.seq, kind: EventKind::Other })
            } else {
                self.done = true;
                Some(ModelEvent { seq: self.seq, kind: EventKind::SessionEnded { reason: super::lit("k") } })
            }
        }
    }
    pub struct BufInner {
        pub data: [ModelEvent; 4],
        pub len: usize,
    }
    pub struct ModelBuffer(pub UnsafeCell<BufInner>, pub *mut World);
    pub struct ModelBufGuard<'a>(&'a UnsafeCell<BufInner>);
    impl ModelBuffer {
        pub fn lock(&self) -> ModelBufGuard<'_> {
            ModelBufGuard(&self.0)
        }
    }
    impl<'a> core::ops::Deref for ModelBufGuard<'a> {
        type Target = [ModelEvent];
        fn deref(&self) -> &[ModelEvent] {
            let b = unsafe { &*self.0.get() };
            &b.data[..b.len]
        }
    }
    fn reason_byte(s: &String) -> u8 {
        if s.len() == 1 {
            s.as_bytes()[0]
        } else {
            b'?'
        }
    }
    pub fn emit_event(event: ModelEvent, _sender: &ModelUnit, events: &ModelBuffer, _log: &ModelUnit) {
        let w = unsafe { &mut *events.1 };
        w.effects += 1;
        if let EventKind::SessionEnded { reason } = &event.kind {
            w.ended_frames += 1;
            w.last_ended_at = w.effects;
            w.last_ended_reason = reason_byte(reason);
        }
        let b = unsafe { &mut *events.0.get() };
        if b.len < 4 {
            let old = core::mem::replace(&mut b.data[b.len], event);
            core::mem::forget(old);
            b.len += 1;
        } else {
            core::mem::forget(event);
        }
    }
    // best-effort in the real code: the snapshot write may FAIL (any answer) -- the run must be closed all the same
    pub fn write_snapshot(_dir: &ModelUnit, _id: &ModelId, _events: &ModelBufGuard<'_>) -> Result<(), ()> {
        if kani::any() {
            Ok(())
        } else {
            Err(())
        }
    }
    pub struct ModelStore(pub *mut World);
    impl ModelStore {
        pub fn append_run_ended(&self, thread: &ModelId, message: &ModelId, session: &ModelId, reason: String, actor: ModelId, origin: ModelId) -> Result<ModelId, ()> {
            let w = unsafe { &mut *self.0 };
            w.effects += 1;
            w.run_ended += 1;
            w.run_ended_at = w.effects;
            w.run_ended_reason = reason_byte(&reason);
            w.run_ended_ids_ok = thread.0 == b't' && message.0 == b'm' && session.0 == b's' && actor.0 == b'u' && origin.0 == b'o';
            core::mem::forget(reason);
            Ok(ModelId(b'e'))
        }
    }
    include!("/verif/harness/gen/run_tail_slice.rs");
}

macro_rules! c07_run_tail {
    ($name:ident, $provider_ended:expr) => {
        #[kani::proof]
        #[kani::unwind(6)]
        #[kani::stub(std::fmt::format, stub_fmt_format)]
        fn $name() {
            use run_tail::*;
            let mut w = World { effects: 0, ended_frames: 0, last_ended_at: 0, last_ended_reason: 0, snapshot_at: 0, snapshot_saw_end: false,
                                run_ended: 0, run_ended_at: 0, run_ended_reason: 0, run_ended_ids_ok: false };
            let wp: *mut World = &mut w;
            let mk_other = || ModelEvent { seq: 0, kind: EventKind::Other };
            let events = ModelBuffer(core::cell::UnsafeCell::new(BufInner { data: [mk_other(), mk_other(), mk_other(), mk_other()], len: 0 }), wp);
            // frames recorded before the tail: the start frame, and in shape (b) the provider path's end frame (reason "p")
            emit_event(ModelEvent { seq: 0, kind: EventKind::Other }, &ModelUnit, &events, &ModelUnit);
            if $provider_ended {
                emit_event(ModelEvent { seq: 1, kind: EventKind::SessionEnded { reason: lit("p") } }, &ModelUnit, &events, &ModelUnit);
            }
            let pending: u8 = kani::any();
            kani::assume(pending <= 1);
            let session = ModelKernelSession { pending, done: false, seq: 1 };
            let linked: bool = kani::any();
            let link = if linked { Some(ModelLink { continuity_id: ModelId(b't'), message_id: ModelId(b'm'), actor_id: ModelId(b'u'), origin: ModelId(b'o') }) } else { None };
            run_session_tail($provider_ended, session, ModelUnit, events, ModelUnit, ModelBox(ModelUnit), ModelId(b'x'), ModelId(b's'), link, ModelBox(ModelStore(wp)));
            let w = unsafe { &*wp };
            assert!(w.ended_frames == 1, "the session stream does not end with exactly one end frame");
            if linked {
                assert!(w.run_ended == 1, "a spawned run attached to a thread does not end with exactly one run-ended frame");
                assert!(w.run_ended_at > w.last_ended_at, "the run-ended frame does not follow the run's own terminal session frame");
                assert!(w.run_ended_reason == w.last_ended_reason, "the run-ended frame does not carry the reason of the run's terminal session frame");
                assert!(w.run_ended_ids_ok, "the run-ended frame names another thread / message / session / actor");
            } else {
                assert!(w.run_ended == 0, "a run-ended frame was written for a session that is not attached to a thread");
            }
            kani::cover!(linked && w.run_ended_reason == if $provider_ended { b'p' } else { b'k' }, "linked run ended with the expected reason");
            kani::cover!(!linked, "unattached session");
        }
    };
}
c07_run_tail!(c07_run_tail_kernel_end, false);
c07_run_tail!(c07_run_tail_provider_end, true);

// ---------------------------------------------------------------------------------------------------------
// The `InputAction::Prompt` arm of run_session (source slice): the order of the thread's frames for one run --
// context selection, then context compilation, then the provider loop (tool side effects), then the cursor update, then
// the session's end frame -- on every outcome of context compilation and of the provider loop; and the fact the tail
// slice assumes: the arm sets skip_runtime_loop exactly when it emitted the session's end frame itself.
// Real types are kept where the sliced text names them through explicit paths or moves Strings into them
// (ContinuityRunLink, ContextSelectionDecidedPayload, ContextCompiledPayload, crate::continuities::ProviderCursorUpdatedPayload);
// everything with behaviour is a recording model.
// ---------------------------------------------------------------------------------------------------------
mod prompt_arm {
    #![allow(unused)]
    use super::super::*; // real payload structs, ContinuityRunLink, CONTEXT_COMPILER_ID_V1, ItemParam, Value
    pub struct World {
        pub effects: u32,
        pub selection_at: u32,
        pub compiled_at: u32,
        pub loop_at: u32,
        pub cursor_at: u32,
        pub ended_at: u32,
        pub ended_frames: u32,
        pub ended_reason_len: usize,
        pub selections: u32,
        pub compiles: u32,
        pub loops: u32,
        pub cursors: u32,
        pub run_ended_in_arm: u32,
        pub compile_ok: bool,
        pub loop_completed: bool,
        pub loop_has_response_id: bool,
        pub ids_ok: bool,
    }
    #[derive(Clone, Copy)]
    pub struct ModelUnit;
    pub struct ModelArc<T>(pub T);
    impl<T> ModelArc<T> {
        pub fn as_ref(&self) -> &T {
            &self.0
        }
    }
    impl<T> core::ops::Deref for ModelArc<T> {
        type Target = T;
        fn deref(&self) -> &T {
            &self.0
        }
    }
    pub struct ModelPathBuf;
    impl ModelPathBuf {
        pub fn as_path(&self) -> &ModelPathBuf {
            self
        }
    }
    pub struct OpenResponsesConfig {
        pub endpoint: String,
        pub model: Option<String>,
    }
    pub struct ModelKernelSession2;
    impl ModelKernelSession2 {
        pub fn seq(&self) -> u64 {
            1
        }
    }
    pub struct ModelBuf2(pub *mut World);
    pub struct EventSink<'a> {
        pub sender: &'a ModelUnit,
        pub buffer: &'a ModelBuf2,
        pub event_log: &'a ModelUnit,
    }
    pub struct ModelStr;
    pub struct Uuid;
    impl Uuid {
        pub fn new_v4() -> Uuid {
            Uuid
        }
        pub fn to_string(&self) -> ModelStr {
            ModelStr
        }
    }
    pub fn now_ms() -> u64 {
        0
    }
    pub mod rip_kernel {
        pub enum EventKind {
            SessionEnded { reason: String },
        }
    }
    pub struct Event {
        pub id: ModelStr,
        pub session_id: String,
        pub timestamp_ms: u64,
        pub seq: u64,
        pub kind: rip_kernel::EventKind,
    }
    pub fn emit_event(event: Event, _sender: &ModelUnit, events: &ModelBuf2, _log: &ModelArc<ModelUnit>) {
        let w = unsafe { &mut *events.0 };
        w.effects += 1;
        let rip_kernel::EventKind::SessionEnded { reason } = &event.kind;
        w.ended_frames += 1;
        w.ended_at = w.effects;
        w.ended_reason_len = reason.len();
        core::mem::forget(event);
    }
    // context compilation: succeeds or fails (symbolic)
    pub struct ModelErr;
    pub struct ContextSelectionDecisionForRun {
        pub compiler_id: String,
        pub compiler_strategy: String,
        pub limits: Value,
        pub compaction_checkpoint: Option<::rip_kernel::ContextSelectionCompactionCheckpointV1>,
        pub compaction_checkpoints: Vec<::rip_kernel::ContextSelectionCompactionCheckpointV1>,
        pub resets: Vec<::rip_kernel::ContextSelectionResetV1>,
        pub reason: Option<Value>,
    }
    pub struct CompiledContextForRun {
        pub bundle_artifact_id: String,
        pub items: Vec<ItemParam>,
        pub from_seq: u64,
        pub from_message_id: Option<String>,
    }
    pub struct ContextCompileOutcomeForRun {
        pub decision: ContextSelectionDecisionForRun,
        pub compiled: CompiledContextForRun,
    }
    pub fn compile_context_bundle_for_run(store: &ModelStore2, _log: &ModelUnit, _dir: &ModelPathBuf, _link: &ContinuityRunLink, _sid: &String) -> Result<ContextCompileOutcomeForRun, ModelErr> {
        let w = unsafe { &mut *store.0 };
        w.compiles += 1;
        if w.compile_ok {
            Ok(ContextCompileOutcomeForRun {
                decision: ContextSelectionDecisionForRun { compiler_id: super::lit("c"), compiler_strategy: super::lit("y"), limits: Value::Null, compaction_checkpoint: None,
                                                           compaction_checkpoints: Vec::new(), resets: Vec::new(), reason: None },
                compiled: CompiledContextForRun { bundle_artifact_id: super::lit("b"), items: Vec::new(), from_seq: 3, from_message_id: None },
            })
        } else {
            Err(ModelErr)
        }
    }
    pub struct ModelStore2(pub *mut World);
    fn is1(s: &str, b: u8) -> bool {
        s.len() == 1 && s.as_bytes()[0] == b
    }
    impl ModelStore2 {
        pub fn append_context_selection_decided(&self, thread: &String, payload: ContextSelectionDecidedPayload) -> Result<String, String> {
            let w = unsafe { &mut *self.0 };
            w.effects += 1;
            w.selections += 1;
            w.selection_at = w.effects;
            if !(is1(thread, b't') && is1(&payload.run_session_id, b's') && is1(&payload.message_id, b'm')) {
                w.ids_ok = false;
            }
            core::mem::forget(payload);
            Ok(String::new())
        }
        pub fn append_context_compiled(&self, thread: &String, payload: ContextCompiledPayload) -> Result<String, String> {
            let w = unsafe { &mut *self.0 };
            w.effects += 1;
            w.compiles += 0;
            w.compiled_at = w.effects;
            if !(is1(thread, b't') && is1(&payload.run_session_id, b's') && payload.from_seq == 3) {
                w.ids_ok = false;
            }
            core::mem::forget(payload);
            Ok(String::new())
        }
        pub fn append_provider_cursor_updated(&self, thread: &String, payload: crate::continuities::ProviderCursorUpdatedPayload) -> Result<String, String> {
            let w = unsafe { &mut *self.0 };
            w.effects += 1;
            w.cursors += 1;
            w.cursor_at = w.effects;
            if !(is1(thread, b't') && payload.run_session_id.as_deref().map(|s| is1(s, b's')).unwrap_or(false)) {
                w.ids_ok = false;
            }
            core::mem::forget(payload);
            Ok(String::new())
        }
        // the run-ended frame belongs to the TAIL of run_session (c07_run_tail_*: exactly one, after the terminal session frame);
        // an arm that appends one itself ends the run twice -- recorded here, asserted by the harness
        pub fn append_run_ended(&self, _thread: &String, _message: &String, _session: &String, reason: String, actor: String, origin: String) -> Result<String, String> {
            let w = unsafe { &mut *self.0 };
            w.effects += 1;
            w.run_ended_in_arm += 1;
            core::mem::forget(reason);
            core::mem::forget(actor);
            core::mem::forget(origin);
            Ok(String::new())
        }
    }
    // the JSON value of the cursor is not the subject
    pub mod serde_json {
        macro_rules! json {
            ($($t:tt)*) => {
                ::serde_json::Value::Null
            };
        }
        pub(crate) use json;
    }
    // the provider loop: any outcome
    pub struct OpenResponsesRunContext<'a> {
        pub http: &'a ModelUnit,
        pub config: &'a OpenResponsesConfig,
        pub tool_runner: &'a ModelUnit,
        pub workspace_lock: &'a ModelUnit,
        pub continuities: &'a ModelStore2,
        pub continuity_run: Option<&'a ContinuityRunLink>,
        pub session_id: &'a String,
        pub initial_items: Option<Vec<ItemParam>>,
        pub prompt: &'a String,
        pub seq: &'a mut u64,
        pub sink: EventSink<'a>,
    }
    pub struct OpenResponsesLoopOutcome {
        pub reason: String,
        pub last_response_id: Option<String>,
    }
    pub fn run_openresponses_agent_loop(ctx: OpenResponsesRunContext<'_>) -> OpenResponsesLoopOutcome {
        let w = unsafe { &mut *ctx.continuities.0 };
        w.effects += 1;
        w.loops += 1;
        w.loop_at = w.effects;
        *ctx.seq += 1;
        core::mem::forget(ctx.initial_items);
        OpenResponsesLoopOutcome {
            reason: if w.loop_completed { String::from("completed") } else { super::lit("x") },
            last_response_id: if w.loop_has_response_id { Some(super::lit("r")) } else { None },
        }
    }
    include!("/verif/harness/gen/run_prompt_arm_slice.rs");
}

macro_rules! c07_prompt_arm {
    ($name:ident, $configured:expr, $linked:expr, $compile_ok:expr) => {
#[kani::proof]
#[kani::unwind(12)]
#[kani::stub(std::fmt::format, stub_fmt_format)]
fn $name() {
    use prompt_arm::*;
    let mut w = World { effects: 0, selection_at: 0, compiled_at: 0, loop_at: 0, cursor_at: 0, ended_at: 0, ended_frames: 0, ended_reason_len: 0, selections: 0,
                        compiles: 0, loops: 0, cursors: 0, run_ended_in_arm: 0, compile_ok: $compile_ok, loop_completed: kani::any(), loop_has_response_id: kani::any(), ids_ok: true };
    let wp: *mut World = &mut w;
    let configured: bool = $configured;
    let linked: bool = $linked;
    let config = if configured { Some(OpenResponsesConfig { endpoint: lit("e"), model: None }) } else { None };
    let link = if linked { Some(ContinuityRunLink { continuity_id: lit("t"), message_id: lit("m"), actor_id: lit("u"), origin: lit("o") }) } else { None };
    let skip = prompt_arm(config, &ModelKernelSession2, ModelUnit, ModelBuf2(wp), ModelArc(ModelUnit), link, ModelArc(ModelStore2(wp)), ModelArc(ModelPathBuf),
                          lit("s"), ModelUnit, ModelArc(ModelUnit), ModelArc(ModelUnit), lit("i"));
    let w = unsafe { &*wp };
    // the fact assumed by the tail slice
    assert!(w.run_ended_in_arm == 0, "the Prompt arm appends a run-ended frame itself: with the one the tail of run_session appends the run ends twice");
    assert!(skip == (w.ended_frames == 1) && w.ended_frames <= 1, "skip_runtime_loop is not set exactly when the arm emitted the session's end frame (the session would get no / two end frames)");
    if !configured {
        assert!(w.effects == 0 && !skip, "a prompt without a provider configuration must be left to the kernel session");
    } else {
        assert!(w.ended_frames == 1, "a provider run did not emit exactly one end frame for the session");
        assert!(w.ids_ok, "a thread frame of the run names another thread / run / message");
        if linked {
            assert!(w.compiles == 1, "context not compiled exactly once for an attached run");
            if w.compile_ok {
                assert!(w.selections == 1 && w.selection_at > 0 && w.compiled_at > w.selection_at, "context selection is not recorded before context compilation");
                assert!(w.loops == 1 && w.loop_at > w.compiled_at, "the provider loop (tool side effects) does not come after context compilation");
            } else {
                assert!(w.selections == 0 && w.compiled_at == 0 && w.loops == 0 && w.cursors == 0, "a run whose context did not compile went on");
            }
        } else {
            assert!(w.selections == 0 && w.compiled_at == 0 && w.cursors == 0, "thread frames written for a session that is not attached to a thread");
            assert!(w.loops == 1, "provider loop not run exactly once");
        }
        if w.loops == 1 {
            let want_cursor = linked && w.loop_completed && w.loop_has_response_id;
            assert!(w.cursors == if want_cursor { 1 } else { 0 }, "provider cursor update not written exactly when the run completed with a response id");
            if want_cursor {
                assert!(w.cursor_at > w.loop_at, "cursor update does not follow the provider loop (tool side effects)");
                assert!(w.ended_at > w.cursor_at, "the session's end frame does not follow the cursor update");
            }
            assert!(w.ended_at > w.loop_at, "the session's end frame does not follow the provider loop");
        }
    }
    kani::cover!(true, "decided");
    kani::cover!(!(configured && w.loops == 1 && linked) || w.cursors == 1 || !w.loop_completed || !w.loop_has_response_id, "cursor written on a completed run");
}
    };
}
// shapes: provider configured?, attached to a thread?, context compiles?  (loop outcome stays symbolic)
c07_prompt_arm!(c07_prompt_arm_full_run, true, true, true);
c07_prompt_arm!(c07_prompt_arm_compile_failed, true, true, false);
c07_prompt_arm!(c07_prompt_arm_unattached, true, false, true);
c07_prompt_arm!(c07_prompt_arm_unconfigured, false, true, true);

// ---------------------------------------------------------------------------------------------------------
// Posting a message to a thread (server.rs::thread_post_message from the message append to the response; source slice):
// one message => exactly one run-spawned frame, naming that message and the session that will run it, written BEFORE
// the session is spawned (so no frame of the run, its run-ended frame included, can precede it); a refused message
// spawns nothing; a failed run-spawned append spawns nothing.
// ---------------------------------------------------------------------------------------------------------
mod post_message {
    #![allow(unused)]
    pub struct World {
        pub effects: u32,
        pub message_ok: bool,
        pub spawned_ok: bool,
        pub messages: u32,
        pub message_at: u32,
        pub run_spawned: u32,
        pub run_spawned_at: u32,
        pub run_spawned_ids_ok: bool,
        pub sessions_created: u32,
        pub registered: u32,
        pub spawns: u32,
        pub spawn_at: u32,
        pub spawn_link_ok: bool,
    }
    #[derive(Clone, Copy)]
    pub struct ModelUnit;
    fn is1(s: &str, b: u8) -> bool {
        s.len() == 1 && s.as_bytes()[0] == b
    }
    pub struct ModelStore3(pub *mut World);
    impl ModelStore3 {
        pub fn append_message(&self, thread: &String, actor: String, origin: String, content: String) -> Result<String, String> {
            let w = unsafe { &mut *self.0 };
            w.effects += 1;
            core::mem::forget((actor, origin, content));
            if w.message_ok {
                w.messages += 1;
                w.message_at = w.effects;
                Ok(super::lit("m"))
            } else {
                Err(String::new())
            }
        }
        pub fn append_run_spawned(&self, thread: &String, message: &String, session: &String, actor: String, origin: String) -> Result<String, String> {
            let w = unsafe { &mut *self.0 };
            w.effects += 1;
            let ids = is1(thread, b't') && is1(message, b'm') && is1(session, b's') && is1(&actor, b'u') && is1(&origin, b'o');
            core::mem::forget((actor, origin));
            if w.spawned_ok {
                w.run_spawned += 1;
                w.run_spawned_at = w.effects;
                w.run_spawned_ids_ok = ids;
                Ok(String::new())
            } else {
                Err(String::new())
            }
        }
    }
    #[derive(Clone)]
    pub struct ModelHandle {
        pub session_id: String,
    }
    pub struct ModelEngine(pub *mut World);
    impl ModelEngine {
        pub fn create_session(&self) -> ModelHandle {
            let w = unsafe { &mut *self.0 };
            w.sessions_created += 1;
            ModelHandle { session_id: super::lit("s") }
        }
        pub fn spawn_session(&self, handle: ModelHandle, content: String, link: Option<crate::continuities::ContinuityRunLink>, _cfg: Option<ModelUnit>) {
            let w = unsafe { &mut *self.0 };
            w.effects += 1;
            w.spawns += 1;
            w.spawn_at = w.effects;
            w.spawn_link_ok = match &link {
                Some(l) => is1(&l.continuity_id, b't') && is1(&l.message_id, b'm') && is1(&l.actor_id, b'u') && is1(&l.origin, b'o') && is1(&handle.session_id, b's'),
                None => false,
            };
            core::mem::forget((handle, content, link));
        }
    }
    pub struct ModelSessions(pub *mut World);
    pub struct ModelSessionsGuard(*mut World);
    impl ModelSessions {
        pub fn lock(&self) -> ModelSessionsGuard {
            ModelSessionsGuard(self.0)
        }
    }
    impl ModelSessionsGuard {
        pub fn insert(&mut self, id: String, handle: ModelHandle) {
            unsafe { (*self.0).registered += 1 };
            core::mem::forget((id, handle));
        }
    }
    pub struct ModelState {
        pub engine: ModelEngine,
        pub sessions: ModelSessions,
    }
    // response models
    pub struct ModelResponse(pub u16);
    #[derive(Clone, Copy)]
    pub struct StatusCode(pub u16);
    impl StatusCode {
        pub const NOT_FOUND: StatusCode = StatusCode(404);
        pub const INTERNAL_SERVER_ERROR: StatusCode = StatusCode(500);
        pub const ACCEPTED: StatusCode = StatusCode(202);
        // the other codes a handler plausibly answers with (so that an added early return compiles and is JUDGED, not refused)
        pub const OK: StatusCode = StatusCode(200);
        pub const CREATED: StatusCode = StatusCode(201);
        pub const NO_CONTENT: StatusCode = StatusCode(204);
        pub const BAD_REQUEST: StatusCode = StatusCode(400);
        pub const CONFLICT: StatusCode = StatusCode(409);
        pub const PAYLOAD_TOO_LARGE: StatusCode = StatusCode(413);
        pub const UNPROCESSABLE_ENTITY: StatusCode = StatusCode(422);
        pub const TOO_MANY_REQUESTS: StatusCode = StatusCode(429);
        pub const SERVICE_UNAVAILABLE: StatusCode = StatusCode(503);
        pub fn into_response(self) -> ModelResponse {
            ModelResponse(self.0)
        }
    }
    pub struct Json<T>(pub T);
    pub struct ThreadPostMessageResponse {
        pub thread_id: String,
        pub message_id: String,
        pub session_id: String,
    }
    pub trait IntoResponseM {
        fn into_response(self) -> ModelResponse;
    }
    impl IntoResponseM for (StatusCode, Json<ThreadPostMessageResponse>) {
        fn into_response(self) -> ModelResponse {
            let code = (self.0).0;
            core::mem::forget(self.1);
            ModelResponse(code)
        }
    }
    include!("/verif/harness/gen/post_message_slice.rs");
}

#[kani::proof]
#[kani::unwind(6)]
#[kani::stub(std::fmt::format, stub_fmt_format)]
fn c07_post_message_spawns_one_run() {
    use post_message::*;
    let mut w = World { effects: 0, message_ok: kani::any(), spawned_ok: kani::any(), messages: 0, message_at: 0, run_spawned: 0, run_spawned_at: 0,
                        run_spawned_ids_ok: false, sessions_created: 0, registered: 0, spawns: 0, spawn_at: 0, spawn_link_ok: false };
    let wp: *mut World = &mut w;
    let state = ModelState { engine: ModelEngine(wp), sessions: ModelSessions(wp) };
    // the message text: one byte, ordinary or blank (whatever the handler does with the content, a message that WAS appended to
    // the thread must get its run)
    let content = sym_id1(&[b'x', b' ']);
    let r = post_message_part(&ModelStore3(wp), &state, lit("t"), lit("u"), lit("o"), content, None);
    let w = unsafe { &*wp };
    if !w.message_ok {
        assert!(w.run_spawned == 0 && w.spawns == 0 && r.0 == 404, "a refused message spawned a run");
    } else if !w.spawned_ok {
        assert!(w.spawns == 0 && r.0 == 500, "a run whose run-spawned frame could not be written was started");
    } else {
        assert!(w.messages == 1 && w.run_spawned == 1, "a posted message does not produce exactly one run-spawned frame");
        assert!(w.run_spawned_at > w.message_at, "run-spawned frame written before its message");
        assert!(w.run_spawned_ids_ok, "the run-spawned frame does not name the message just appended / the session created for it");
        assert!(w.spawns == 1 && w.spawn_at > w.run_spawned_at, "the session is started before its run-spawned frame is on the thread (run frames could precede it)");
        assert!(w.spawn_link_ok && w.sessions_created == 1 && w.registered == 1, "the started session is not the one the run-spawned frame names / not attached to that message");
        assert!(r.0 == 202, "accepted message not acknowledged");
    }
    kani::cover!(w.message_ok && w.spawned_ok, "message accepted and run spawned");
    kani::cover!(!w.message_ok, "message refused");
    core::mem::forget(r);
}
