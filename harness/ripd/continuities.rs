// Kani harnesses mounted into crates/ripd/src/continuities.rs (cfg(kani) only).
#![allow(unused_imports, dead_code, unused_variables, unused_mut)]
use super::*;
include!("/verif/harness/common.rs");
use crate::continuity_stream_cache::{ContinuityWindow, TailScan};

// ---------------------------------------------------------------------------------------------------------
// store construction (struct literal: private fields are visible to this child module; no I/O constructor)
// ---------------------------------------------------------------------------------------------------------
fn kani_store() -> &'static ContinuityStore {
    let (sender, receiver) = broadcast::channel(1);
    core::mem::forget(receiver);
    let store = ContinuityStore {
        data_dir: PathBuf::new(),
        workspace_root: PathBuf::new(),
        event_log: Arc::new(rip_log::verif_kani::kani_event_log()),
        stream_cache: crate::continuity_stream_cache::verif_kani::kani_cache(),
        sender,
        index: Mutex::new(ContinuityIndexV1::default()),
        next_seq: Mutex::new(HashMap::new()),
    };
    Box::leak(Box::new(store))
}

fn stub_get_some(_this: &ContinuityStore, _id: &str) -> Option<ContinuityMeta> {
    Some(ContinuityMeta {
        continuity_id: String::new(),
        created_at_ms: 0,
        title: None,
        archived: false,
    })
}

// ---------------------------------------------------------------------------------------------------------
// C04(a): every tail-window loop terminates whatever the cache layer answers.
// The scan primitive is ARBITRARY at every iteration: Ok(None) / Err / Ok(Some{complete: nondet}). The returned
// tail carries no frames: "the searched frame is not in the window" is the worst case for termination (a hit
// only ends the loops sooner). A thread longer than every window is this stub answering complete=false forever.
// Oracle: CBMC's unwinding assertion with the bound derived from the loop constants
// (256 KiB doubling to 8 MiB = 6 windows; unwind 8).
// ---------------------------------------------------------------------------------------------------------
// The answer KIND is fixed per harness (shape): a stub that chooses between Ok(None)/Err/Ok(Some) symbolically (or
// through a `static mut` counter, which CBMC does not constant-fold) makes CBMC merge the return values, the
// discriminant and the tail's Vec become symbolic and the drop glue of garbage frames explodes (measured: > 20 min).
// Within a shape the `complete` flag of every answered window is symbolic. "late" shapes answer "not complete" for
// the small windows and switch to Ok(None) once the requested window (a concrete argument in every unrolled
// iteration) reaches 1 MiB. Err(io::Error) answers are OUTSIDE the claim: dropping an io::Error (bit-packed tagged
// pointer, boxed dyn Error arm) is not constant-folded by CBMC and the harness does not finish (measured > 300 s).
fn stub_scan_some(_this: &ContinuityStreamCache, _id: &str, _max_events: usize, max_bytes: usize) -> io::Result<Option<TailScan>> {
    assert!(max_bytes >= 16 * 1024 && max_bytes <= 256 * 1024 * 1024, "tail window outside the documented ladder");
    let complete: bool = kani::any();
    kani::cover!(!complete && max_bytes >= 8 * 1024 * 1024, "cache still answers 'window not complete' at the largest window");
    Ok(Some(TailScan { events: Vec::new(), complete }))
}
fn stub_scan_none(_this: &ContinuityStreamCache, _id: &str, _max_events: usize, _max_bytes: usize) -> io::Result<Option<TailScan>> {
    Ok(None)
}
fn stub_scan_err(_this: &ContinuityStreamCache, _id: &str, _max_events: usize, _max_bytes: usize) -> io::Result<Option<TailScan>> {
    Err(io::Error::from(io::ErrorKind::Other))
}
fn stub_scan_none_late(_this: &ContinuityStreamCache, _id: &str, _max_events: usize, max_bytes: usize) -> io::Result<Option<TailScan>> {
    if max_bytes >= 1024 * 1024 {
        return Ok(None);
    }
    Ok(Some(TailScan { events: Vec::new(), complete: false }))
}
fn stub_scan_err_late(_this: &ContinuityStreamCache, _id: &str, _max_events: usize, max_bytes: usize) -> io::Result<Option<TailScan>> {
    if max_bytes >= 1024 * 1024 {
        return Err(io::Error::from(io::ErrorKind::Other));
    }
    Ok(Some(TailScan { events: Vec::new(), complete: false }))
}

fn stub_replay_events_empty(_this: &ContinuityStore, _id: &str) -> io::Result<Vec<Event>> {
    Ok(Vec::new())
}

fn created_event(seq: u64) -> Event {
    Event {
        id: lit("c"),
        session_id: lit("t"),
        timestamp_ms: 0,
        seq,
        kind: EventKind::ContinuityCreated {
            workspace: lit("w"),
            title: None,
        },
    }
}

// C02: an append reached from a read-only / no-op call is a violation
fn stub_append_cursor_unreachable(
    _this: &ContinuityStore,
    _id: &str,
    _payload: ProviderCursorUpdatedPayload,
) -> Result<String, String> {
    assert!(false, "no-op / read-only capability appended a frame");
    Ok(String::new())
}

fn stub_replay_events_err(_this: &ContinuityStore, _id: &str) -> io::Result<Vec<Event>> {
    Err(io::Error::from(io::ErrorKind::Other))
}

macro_rules! c04_term {
    ($name:ident, $scan:path, $call:expr) => {
        #[kani::proof]
        #[kani::unwind(8)]
        #[kani::stub(std::fmt::format, stub_fmt_format)]
        #[kani::stub(std::hash::RandomState::new, stub_random_state_new)]
        #[kani::stub(ContinuityStreamCache::scan_tail, $scan)]
        #[kani::stub(ContinuityStore::replay_events, stub_replay_events_empty)]
        #[kani::stub(ContinuityStore::append_provider_cursor_updated, stub_append_cursor_unreachable)]
        #[kani::stub(ContinuityStore::get, stub_get_some)]
        fn $name() {
            let store = kani_store();
            let f: fn(&ContinuityStore) = $call;
            f(store);
        }
    };
}

c04_term!(c04_term_cursor_status_some, stub_scan_some, |s| {
    let r = s.provider_cursor_status_v1("t", ProviderCursorStatusV1Request {});
    kani::cover!(r.is_ok(), "status returned Ok");
    core::mem::forget(r);
});

c04_term!(c04_term_cursor_status_none, stub_scan_none, |s| {
    let r = s.provider_cursor_status_v1("t", ProviderCursorStatusV1Request {});
    kani::cover!(r.is_ok(), "status returned Ok");
    core::mem::forget(r);
});
c04_term!(c04_term_cursor_status_none_late, stub_scan_none_late, |s| {
    let r = s.provider_cursor_status_v1("t", ProviderCursorStatusV1Request {});
    kani::cover!(r.is_ok(), "status returned Ok");
    core::mem::forget(r);
});

fn rotate_req() -> ProviderCursorRotateV1Request {
    ProviderCursorRotateV1Request {
        provider: None,
        endpoint: None,
        model: None,
        reason: None,
        actor_id: String::from("u"),
        origin: String::from("o"),
    }
}
c04_term!(c04_term_cursor_rotate_some, stub_scan_some, |s| {
    let r = s.provider_cursor_rotate_v1("t", rotate_req());
    kani::cover!(r.is_ok(), "rotate returned Ok");
    core::mem::forget(r);
});
c04_term!(c04t_term_cursor_rotate_none_late, stub_scan_none_late, |s| {
    let r = s.provider_cursor_rotate_v1("t", rotate_req());
    kani::cover!(r.is_ok(), "rotate returned Ok");
    core::mem::forget(r);
});

c04_term!(c04_term_selection_status_some, stub_scan_some, |s| {
    let limit: Option<u32> = if kani::any() { Some(kani::any()) } else { None };
    let r = s.context_selection_status_v1("t", ContextSelectionStatusV1Request { limit });
    kani::cover!(r.is_ok(), "selection status returned Ok");
    core::mem::forget(r);
});
c04_term!(c04t_term_selection_status_none_late, stub_scan_none_late, |s| {
    let r = s.context_selection_status_v1("t", ContextSelectionStatusV1Request { limit: None });
    kani::cover!(r.is_ok(), "selection status returned Ok");
    core::mem::forget(r);
});

// compaction_status_v1: its other callees are answered "nothing known" so that the tail loop is what runs.
fn stub_cut_points_empty(
    _this: &ContinuityStore,
    _id: &str,
    _req: CompactionCutPointsV1Request,
) -> Result<CompactionCutPointsV1Response, String> {
    Ok(CompactionCutPointsV1Response {
        thread_id: String::new(),
        stride_messages: 1,
        message_count: 0,
        cut_rule_id: String::new(),
        cut_points: Vec::new(),
    })
}
fn stub_find_inflight_none(_this: &ContinuityStore, _id: &str) -> Option<String> {
    None
}
fn stub_latest_ckpt_none(_this: &ContinuityStreamCache, _id: &str, _seq: u64) -> io::Result<Option<Event>> {
    Ok(None)
}

macro_rules! c04_term_status {
    ($name:ident, $scan:path) => {
        #[kani::proof]
        #[kani::unwind(8)]
        #[kani::stub(std::fmt::format, stub_fmt_format)]
        #[kani::stub(std::hash::RandomState::new, stub_random_state_new)]
        #[kani::stub(ContinuityStreamCache::scan_tail, $scan)]
        #[kani::stub(ContinuityStreamCache::latest_compaction_checkpoint_before_or_at_seq_v1, stub_latest_ckpt_none)]
        #[kani::stub(ContinuityStore::replay_events, stub_replay_events_empty)]
        #[kani::stub(ContinuityStore::compaction_cut_points_v1, stub_cut_points_empty)]
        #[kani::stub(ContinuityStore::find_inflight_compaction_job_id_best_effort_v1, stub_find_inflight_none)]
        #[kani::stub(ContinuityStore::get, stub_get_some)]
        fn $name() {
            let store = kani_store();
            let stride: Option<u64> = if kani::any() { Some(kani::any()) } else { None };
            let r = store.compaction_status_v1("t", CompactionStatusV1Request { stride_messages: stride });
            kani::cover!(r.is_err(), "compaction status reached its truth fallback (empty replay => thread_not_found)");
            core::mem::forget(r);
        }
    };
}
c04_term_status!(c04_term_compaction_status_some, stub_scan_some);
c04_term_status!(c04t_term_compaction_status_none_late, stub_scan_none_late);

#[kani::proof]
fn c00_setup_probe() {
    let x: u8 = kani::any();
    assert!(x as u16 <= 255);
}




