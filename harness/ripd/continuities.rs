// Kani harnesses mounted into crates/ripd/src/continuities.rs (cfg(kani) only).
#![allow(unused_imports, dead_code, unused_variables, unused_mut)]
use super::*;
include!("/verif/harness/common.rs");
use crate::continuity_stream_cache::{ContinuityWindow, TailScan};

// ---------------------------------------------------------------------------------------------------------
// store construction (struct literal: private fields are visible to this child module; no I/O constructor)
// ---------------------------------------------------------------------------------------------------------
fn kani_store() -> &'static ContinuityStore {
    let (sender, receiver) = broadcast::channel(1);
    core::mem::forget(receiver);
    let store = ContinuityStore {
        data_dir: PathBuf::new(),
        workspace_root: PathBuf::new(),
        event_log: Arc::new(rip_log::verif_kani::kani_event_log()),
        stream_cache: crate::continuity_stream_cache::verif_kani::kani_cache(),
        sender,
        index: Mutex::new(ContinuityIndexV1::default()),
        next_seq: Mutex::new(HashMap::new()),
    };
    Box::leak(Box::new(store))
}

fn stub_get_some(_this: &ContinuityStore, _id: &str) -> Option<ContinuityMeta> {
    Some(ContinuityMeta {
        continuity_id: String::new(),
        created_at_ms: 0,
        title: None,
        archived: false,
    })
}

// ---------------------------------------------------------------------------------------------------------
// C04(a): every tail-window loop terminates whatever the cache layer answers.
// The scan primitive is ARBITRARY at every iteration: Ok(None) / Err / Ok(Some{complete: nondet}). The returned
// tail carries no frames: "the searched frame is not in the window" is the worst case for termination (a hit
// only ends the loops sooner). A thread longer than every window is this stub answering complete=false forever.
// Oracle: CBMC's unwinding assertion with the bound derived from the loop constants
// (256 KiB doubling to 8 MiB = 6 windows; unwind 8).
// ---------------------------------------------------------------------------------------------------------
// The answer KIND is fixed per harness (shape): a stub that chooses between Ok(None)/Err/Ok(Some) symbolically (or
// through a `static mut` counter, which CBMC does not constant-fold) makes CBMC merge the return values, the
// discriminant and the tail's Vec become symbolic and the drop glue of garbage frames explodes (measured: > 20 min).
// Within a shape the `complete` flag of every answered window is symbolic. "late" shapes answer "not complete" for
// the small windows and switch to Ok(None) once the requested window (a concrete argument in every unrolled
// iteration) reaches 1 MiB. Err(io::Error) answers are OUTSIDE the claim: dropping an io::Error (bit-packed tagged
// pointer, boxed dyn Error arm) is not constant-folded by CBMC and the harness does not finish (measured > 300 s).
fn stub_scan_some(_this: &ContinuityStreamCache, _id: &str, _max_events: usize, max_bytes: usize) -> io::Result<Option<TailScan>> {
    assert!(max_bytes >= 16 * 1024 && max_bytes <= 256 * 1024 * 1024, "tail window outside the documented ladder");
    let complete: bool = kani::any();
    kani::cover!(!complete && max_bytes >= 8 * 1024 * 1024, "cache still answers 'window not complete' at the largest window");
    Ok(Some(TailScan { events: Vec::new(), complete }))
}
fn stub_scan_none(_this: &ContinuityStreamCache, _id: &str, _max_events: usize, _max_bytes: usize) -> io::Result<Option<TailScan>> {
    Ok(None)
}
fn stub_scan_err(_this: &ContinuityStreamCache, _id: &str, _max_events: usize, _max_bytes: usize) -> io::Result<Option<TailScan>> {
    Err(io::Error::from(io::ErrorKind::Other))
}
fn stub_scan_none_late(_this: &ContinuityStreamCache, _id: &str, _max_events: usize, max_bytes: usize) -> io::Result<Option<TailScan>> {
    if max_bytes >= 1024 * 1024 {
        return Ok(None);
    }
    Ok(Some(TailScan { events: Vec::new(), complete: false }))
}
fn stub_scan_err_late(_this: &ContinuityStreamCache, _id: &str, _max_events: usize, max_bytes: usize) -> io::Result<Option<TailScan>> {
    if max_bytes >= 1024 * 1024 {
        return Err(io::Error::from(io::ErrorKind::Other));
    }
    Ok(Some(TailScan { events: Vec::new(), complete: false }))
}

fn stub_replay_events_empty(_this: &ContinuityStore, _id: &str) -> io::Result<Vec<Event>> {
    Ok(Vec::new())
}

fn created_event(seq: u64) -> Event {
    Event {
        id: lit("c"),
        session_id: lit("t"),
        timestamp_ms: 0,
        seq,
        kind: EventKind::ContinuityCreated {
            workspace: lit("w"),
            title: None,
        },
    }
}

// C02: an append reached from a read-only / no-op call is a violation
fn stub_append_cursor_unreachable(
    _this: &ContinuityStore,
    _id: &str,
    _payload: ProviderCursorUpdatedPayload,
) -> Result<String, String> {
    assert!(false, "no-op / read-only capability appended a frame");
    Ok(String::new())
}

fn stub_replay_events_err(_this: &ContinuityStore, _id: &str) -> io::Result<Vec<Event>> {
    Err(io::Error::from(io::ErrorKind::Other))
}

macro_rules! c04_term {
    ($name:ident, $scan:path, $call:expr) => {
        #[kani::proof]
        #[kani::unwind(8)]
        #[kani::stub(std::fmt::format, stub_fmt_format)]
        #[kani::stub(std::hash::RandomState::new, stub_random_state_new)]
        #[kani::stub(ContinuityStreamCache::scan_tail, $scan)]
        #[kani::stub(ContinuityStore::replay_events, stub_replay_events_empty)]
        #[kani::stub(ContinuityStore::append_provider_cursor_updated, stub_append_cursor_unreachable)]
        #[kani::stub(ContinuityStore::get, stub_get_some)]
        fn $name() {
            let store = kani_store();
            let f: fn(&ContinuityStore) = $call;
            f(store);
        }
    };
}

c04_term!(c04_term_cursor_status_some, stub_scan_some, |s| {
    let r = s.provider_cursor_status_v1("t", ProviderCursorStatusV1Request {});
    kani::cover!(r.is_ok(), "status returned Ok");
    core::mem::forget(r);
});

c04_term!(c04_term_cursor_status_none, stub_scan_none, |s| {
    let r = s.provider_cursor_status_v1("t", ProviderCursorStatusV1Request {});
    kani::cover!(r.is_ok(), "status returned Ok");
    core::mem::forget(r);
});
c04_term!(c04_term_cursor_status_none_late, stub_scan_none_late, |s| {
    let r = s.provider_cursor_status_v1("t", ProviderCursorStatusV1Request {});
    kani::cover!(r.is_ok(), "status returned Ok");
    core::mem::forget(r);
});

fn rotate_req() -> ProviderCursorRotateV1Request {
    ProviderCursorRotateV1Request {
        provider: None,
        endpoint: None,
        model: None,
        reason: None,
        actor_id: String::from("u"),
        origin: String::from("o"),
    }
}
c04_term!(c04_term_cursor_rotate_some, stub_scan_some, |s| {
    let r = s.provider_cursor_rotate_v1("t", rotate_req());
    kani::cover!(r.is_ok(), "rotate returned Ok");
    core::mem::forget(r);
});
c04_term!(c04t_term_cursor_rotate_none_late, stub_scan_none_late, |s| {
    let r = s.provider_cursor_rotate_v1("t", rotate_req());
    kani::cover!(r.is_ok(), "rotate returned Ok");
    core::mem::forget(r);
});

c04_term!(c04_term_selection_status_some, stub_scan_some, |s| {
    let limit: Option<u32> = if kani::any() { Some(kani::any()) } else { None };
    let r = s.context_selection_status_v1("t", ContextSelectionStatusV1Request { limit });
    kani::cover!(r.is_ok(), "selection status returned Ok");
    core::mem::forget(r);
});
c04_term!(c04t_term_selection_status_none_late, stub_scan_none_late, |s| {
    let r = s.context_selection_status_v1("t", ContextSelectionStatusV1Request { limit: None });
    kani::cover!(r.is_ok(), "selection status returned Ok");
    core::mem::forget(r);
});

// compaction_status_v1: its other callees are answered "nothing known" so that the tail loop is what runs.
fn stub_cut_points_empty(
    _this: &ContinuityStore,
    _id: &str,
    _req: CompactionCutPointsV1Request,
) -> Result<CompactionCutPointsV1Response, String> {
    Ok(CompactionCutPointsV1Response {
        thread_id: String::new(),
        stride_messages: 1,
        message_count: 0,
        cut_rule_id: String::new(),
        cut_points: Vec::new(),
    })
}
fn stub_find_inflight_none(_this: &ContinuityStore, _id: &str) -> Option<String> {
    None
}
fn stub_latest_ckpt_none(_this: &ContinuityStreamCache, _id: &str, _seq: u64) -> io::Result<Option<Event>> {
    Ok(None)
}

macro_rules! c04_term_status {
    ($name:ident, $scan:path) => {
        #[kani::proof]
        #[kani::unwind(8)]
        #[kani::stub(std::fmt::format, stub_fmt_format)]
        #[kani::stub(std::hash::RandomState::new, stub_random_state_new)]
        #[kani::stub(ContinuityStreamCache::scan_tail, $scan)]
        #[kani::stub(ContinuityStreamCache::latest_compaction_checkpoint_before_or_at_seq_v1, stub_latest_ckpt_none)]
        #[kani::stub(ContinuityStore::replay_events, stub_replay_events_empty)]
        #[kani::stub(ContinuityStore::compaction_cut_points_v1, stub_cut_points_empty)]
        #[kani::stub(ContinuityStore::find_inflight_compaction_job_id_best_effort_v1, stub_find_inflight_none)]
        #[kani::stub(ContinuityStore::get, stub_get_some)]
        fn $name() {
            let store = kani_store();
            let stride: Option<u64> = if kani::any() { Some(kani::any()) } else { None };
            let r = store.compaction_status_v1("t", CompactionStatusV1Request { stride_messages: stride });
            kani::cover!(r.is_err(), "compaction status reached its truth fallback (empty replay => thread_not_found)");
            core::mem::forget(r);
        }
    };
}
c04_term_status!(c04_term_compaction_status_some, stub_scan_some);
c04_term_status!(c04t_term_compaction_status_none_late, stub_scan_none_late);

#[kani::proof]
fn c00_setup_probe() {
    let x: u8 = kani::any();
    assert!(x as u16 <= 255);
}





// ---------------------------------------------------------------------------------------------------------
// C09: cut points are exactly the k*stride-th messages, latest first, at most clamp(limit,1,32) of them.
// Faithful ordinal index: the thread has COUNT messages (symbolic); message number `o` (1-based) has seq 3*o+1.
// The index stub also asserts that the planner only asks for ordinals that exist (1..=COUNT) -- an off-by-one in the
// ordinal arithmetic trips it. No checkpoint exists in this family (the checkpoint cache answers Ok(None) and the
// full sidecar is present), so nothing is already checkpointed.
// Bounds (measured: every planner round costs ~40 s of symex): COUNT < 64, stride < 16, limit in {None, 0, 1, 2}.
// ---------------------------------------------------------------------------------------------------------
// Harness context is handed to the stubs THROUGH the thread-id argument: an empty &str whose pointer addresses a
// harness-owned context struct (writes to `static mut` made Kani/CBMC mis-model unrelated constants in this crate --
// Vec::new() capacities came back non-zero -- so statics are not used to talk to stubs).
#[repr(C)]
struct HCtx {
    count: u64,
}
fn ctx_id(ctx: &HCtx) -> &str {
    unsafe { core::str::from_utf8_unchecked(core::slice::from_raw_parts(ctx as *const HCtx as *const u8, 0)) }
}
fn ctx_of(id: &str) -> &HCtx {
    unsafe { &*(id.as_ptr() as *const HCtx) }
}

fn stub_message_count(_this: &ContinuityStreamCache, id: &str) -> io::Result<Option<u64>> {
    Ok(Some(ctx_of(id).count))
}
fn stub_message_by_ordinal(_this: &ContinuityStreamCache, id: &str, ordinal: u64) -> io::Result<Option<(u64, String)>> {
    assert!(ordinal >= 1 && ordinal <= ctx_of(id).count, "planner asked the ordinal index for a message that does not exist");
    Ok(Some((ordinal * 3 + 1, String::new())))
}
fn stub_last_seq_some(_this: &ContinuityStreamCache, _id: &str) -> io::Result<Option<u64>> {
    Ok(Some(0))
}
fn stub_replay_unreachable(_this: &ContinuityStore, _id: &str) -> io::Result<Vec<Event>> {
    assert!(false, "fast path with a faithful cache fell back to truth replay");
    Ok(Vec::new())
}

#[kani::proof]
#[kani::unwind(4)]
#[kani::stub(std::fmt::format, stub_fmt_format)]
#[kani::stub(std::hash::RandomState::new, stub_random_state_new)]
#[kani::stub(ContinuityStreamCache::message_count_messages_runs_v1, stub_message_count)]
#[kani::stub(ContinuityStreamCache::message_by_ordinal_messages_runs_v1, stub_message_by_ordinal)]
#[kani::stub(ContinuityStreamCache::latest_compaction_checkpoint_before_or_at_seq_v1, stub_latest_ckpt_none)]
#[kani::stub(ContinuityStreamCache::try_read_last_seq, stub_last_seq_some)]
#[kani::stub(ContinuityStore::replay_events, stub_replay_unreachable)]
fn c09_cut_points_ordinals() {
    let count: u64 = kani::any();
    let stride: u64 = kani::any();
    kani::assume(count < 64 && stride < 16);
    let ctx = HCtx { count };
    let stride_req: Option<u64> = Some(stride);
    let limit_raw: u32 = kani::any();
    kani::assume(limit_raw <= 2);
    let limit_req: Option<u32> = if kani::any() { Some(limit_raw) } else { None };
    let store = kani_store();
    let r = store.compaction_cut_points_v1(
        ctx_id(&ctx),
        CompactionCutPointsV1Request { stride_messages: stride_req, limit: limit_req },
    );
    match &r {
        Err(_) => {
            assert!(stride == 0, "cut points refused although the stride is valid");
        }
        Ok(resp) => {
            assert!(stride != 0, "stride 0 accepted");
            let limit = match limit_req {
                None => 1u64,
                Some(l) => {
                    if l < 1 { 1 } else { l as u64 }
                }
            };
            let k = count / stride; // number of cut points that exist
            let want = if k < limit { k } else { limit };
            assert!(resp.message_count == count && resp.stride_messages == stride);
            assert!(resp.cut_points.len() as u64 == want, "wrong number of cut points");
            let mut j = 0usize;
            while j < resp.cut_points.len() {
                let cp = &resp.cut_points[j];
                let ord = (k - j as u64) * stride;
                assert!(cp.target_message_ordinal == ord, "cut point is not the k*stride-th message (latest first)");
                assert!(cp.to_seq == ord * 3 + 1, "cut point seq is not that message's seq");
                assert!(!cp.already_checkpointed && cp.latest_checkpoint_id.is_none(), "cut point reported as checkpointed without any checkpoint");
                j += 1;
            }
            kani::cover!(resp.cut_points.len() == 2, "two cut points planned");
            kani::cover!(resp.cut_points.len() == 0, "thread shorter than the stride");
        }
    }
    core::mem::forget(r);
}

// ---------------------------------------------------------------------------------------------------------
// Truth history handed to the code under test: a harness-owned STACK array of frames, reached by the replay stub
// through the context pointer carried in the thread-id argument, and aliased by a capacity-0 Vec (see common.rs).
// ---------------------------------------------------------------------------------------------------------
#[repr(C)]
struct HistCtx {
    count: u64,
    hist: *mut Event,
    hist_len: usize,
    appended: u32,
}
fn hctx_id(ctx: &HistCtx) -> &str {
    unsafe { core::str::from_utf8_unchecked(core::slice::from_raw_parts(ctx as *const HistCtx as *const u8, 0)) }
}
fn hctx_of(id: &str) -> &mut HistCtx {
    unsafe { &mut *(id.as_ptr() as *mut HistCtx) }
}
fn stub_replay_events_ctx(_this: &ContinuityStore, id: &str) -> io::Result<Vec<Event>> {
    let ctx = hctx_of(id);
    Ok(unsafe { alias_vec(ctx.hist, ctx.hist_len) })
}


// ---------------------------------------------------------------------------------------------------------
// Context-carrying store: every stub reaches the harness context through `self` -- the store's data_dir, the
// cache's dir and the event log's path are EMPTY paths whose buffer pointer addresses the context struct.
// ---------------------------------------------------------------------------------------------------------
#[repr(C)]
struct Env {
    // truth history (harness-owned stack array)
    hist: *mut Event,
    hist_len: usize,
    // effect recorder
    replays: u32,
    created: u32,          // create_continuity calls
    log_appends: u32,      // EventLog::append calls
    last_seq: u64,
    last_on_parent: bool,  // the appended frame carried the PARENT's stream id
    last_kind: u8,         // 1 = branched, 2 = handoff_created, 0 = other
    last_cut: u64,
    last_has_summary_artifact: bool,
    bundle_writes: u32,
}
impl Env {
    fn new(hist: *mut Event, hist_len: usize) -> Env {
        Env { hist, hist_len, replays: 0, created: 0, log_appends: 0, last_seq: 0, last_on_parent: false, last_kind: 0,
              last_cut: 0, last_has_summary_artifact: false, bundle_writes: 0 }
    }
}
fn env_path(env: *mut Env) -> PathBuf {
    use std::os::unix::ffi::OsStringExt;
    PathBuf::from(std::ffi::OsString::from_vec(unsafe { Vec::from_raw_parts(env as *mut u8, 0, 0) }))
}
fn env_of_path(p: &Path) -> &mut Env {
    unsafe { &mut *(p.as_os_str().as_encoded_bytes().as_ptr() as *mut Env) }
}
// Returned BY VALUE and kept on the harness stack (ManuallyDrop): fields of a Box::leak'ed store are read back from a
// malloc'ed object, which CBMC does not constant-fold (e.g. the empty workspace_root then has a symbolic length).
fn kani_store_env(env: *mut Env) -> core::mem::ManuallyDrop<ContinuityStore> {
    let (sender, receiver) = broadcast::channel(1);
    core::mem::forget(receiver);
    let store = ContinuityStore {
        data_dir: env_path(env),
        workspace_root: env_path(env),
        event_log: Arc::new(rip_log::verif_kani::kani_event_log_at(env_path(env))),
        stream_cache: crate::continuity_stream_cache::verif_kani::kani_cache_at(env_path(env)),
        sender,
        index: Mutex::new(ContinuityIndexV1::default()),
        next_seq: Mutex::new(HashMap::new()),
    };
    core::mem::ManuallyDrop::new(store)
}
// In-place construction (no by-value return): a struct returned by value from a helper is moved with a byte-wise copy
// that CBMC does not constant-fold either (mutex state, map `items`, path lengths came back symbolic).
macro_rules! mk_store {
    ($env:expr) => {{
        let (sender, receiver) = broadcast::channel(1);
        core::mem::forget(receiver);
        ContinuityStore {
            data_dir: env_path($env),
            workspace_root: PathBuf::new(),
            event_log: Arc::new(rip_log::verif_kani::kani_event_log_at(env_path($env))),
            stream_cache: crate::continuity_stream_cache::verif_kani::kani_cache_at(env_path($env)),
            sender,
            index: Mutex::new(ContinuityIndexV1::default()),
            next_seq: Mutex::new(HashMap::new()),
        }
    }};
}
fn stub_workspace_key(_root: &Path) -> String {
    lit("w")
}
fn alias_str_raw(ptr: *mut u8, len: usize) -> String {
    unsafe { String::from_raw_parts(ptr, len, 0) }
}

fn env_replay(this: &ContinuityStore, _id: &str) -> io::Result<Vec<Event>> {
    let env = env_of_path(&this.data_dir);
    env.replays += 1;
    Ok(unsafe { alias_vec(env.hist, env.hist_len) })
}
fn env_create_continuity(
    this: &ContinuityStore,
    _workspace: String,
    _id: Option<String>,
    _title: Option<String>,
    _set_default: bool,
) -> Result<String, String> {
    let env = env_of_path(&this.data_dir);
    env.created += 1;
    Ok(lit("k"))
}
fn env_log_append(this: &EventLog, event: &Event) -> io::Result<()> {
    let env = env_of_path(rip_log::verif_kani::kani_event_log_path(this));
    env.log_appends += 1;
    env.last_seq = event.seq;
    env.last_on_parent = event.session_id.len() == 1 && event.session_id.as_bytes()[0] == b'p';
    match &event.kind {
        EventKind::ContinuityBranched { parent_seq, .. } => {
            env.last_kind = 1;
            env.last_cut = *parent_seq;
        }
        EventKind::ContinuityHandoffCreated { from_seq, summary_artifact_id, .. } => {
            env.last_kind = 2;
            env.last_cut = *from_seq;
            env.last_has_summary_artifact = summary_artifact_id.is_some();
        }
        _ => {
            env.last_kind = 0;
        }
    }
    Ok(())
}
fn env_cache_append_noop(_this: &ContinuityStreamCache, _event: &Event) {}
fn env_write_handoff_bundle(root: &Path, _bundle: &HandoffContextBundleV1) -> Result<String, String> {
    // workspace_root of the harness store is an empty path; the context is reached through a thread-local-free trick:
    // the bundle writer is only called from handoff(), whose store carries the context in data_dir -- not visible here,
    // so the call is counted through the bundle's own source field pointer-free: we simply return a fixed id and let
    // the harness count calls through `Env::bundle_writes` via the path argument when it carries the context.
    let env = env_of_path(root);
    env.bundle_writes += 1;
    Ok(lit("art"))
}
fn env_send_noop<T>(_this: &broadcast::Sender<T>, value: T) -> Result<usize, broadcast::error::SendError<T>> {
    core::mem::forget(value);
    Ok(0)
}
fn stub_uuid_v4() -> Uuid {
    Uuid::from_bytes([7u8; 16])
}
fn stub_now_ms_sym() -> u64 {
    kani::any()
}
fn stub_to_string_empty<T: core::fmt::Display + ?Sized>(_t: &T) -> String {
    String::new()
}

// history frames (ids / message ids alias harness-owned bytes: never freed, may be read after the call)
fn h_created(seq: u64) -> Event {
    Event { id: lit("c"), session_id: lit("p"), timestamp_ms: 0, seq,
        kind: EventKind::ContinuityCreated { workspace: lit("w"), title: None } }
}
fn h_message(seq: u64, id: *mut u8) -> Event {
    Event { id: alias_str_raw(id, 1), session_id: lit("p"), timestamp_ms: 0, seq,
        kind: EventKind::ContinuityMessageAppended { actor_id: lit("u"), origin: lit("o"), content: lit("x") } }
}
fn h_run_spawned(seq: u64, mid: *mut u8) -> Event {
    Event { id: lit("r"), session_id: lit("p"), timestamp_ms: 0, seq,
        kind: EventKind::ContinuityRunSpawned { run_session_id: lit("s"), message_id: alias_str_raw(mid, 1), actor_id: None, origin: None } }
}
fn h_run_ended(seq: u64, mid: *mut u8) -> Event {
    Event { id: lit("e"), session_id: lit("p"), timestamp_ms: 0, seq,
        kind: EventKind::ContinuityRunEnded { run_session_id: lit("s"), message_id: alias_str_raw(mid, 1), reason: lit("d"), actor_id: None, origin: None } }
}

// ---------------------------------------------------------------------------------------------------------
// C10: branch records correct lineage and never touches the parent.
// History shape: [created, K1, K2] with K in {M = message, S = run_spawned, E = run_ended}; seqs symbolic increasing,
// message ids / run message-ids symbolic over {a,b}. Selector symbolic: none / from_seq (any u64) / from_message_id
// (1 byte over {a,b,c}: a message, a non-message reference, or nothing) / both.
// ---------------------------------------------------------------------------------------------------------
macro_rules! c10_branch {
    ($name:ident, $k1:ident, $k2:ident) => {
        #[kani::proof]
        #[kani::unwind(6)]
        #[kani::stub(std::fmt::format, stub_fmt_format)]
        #[kani::stub(std::hash::RandomState::new, stub_random_state_new)]
        #[kani::stub(uuid::Uuid::new_v4, stub_uuid_v4)]
        #[kani::stub(now_ms, stub_now_ms_sym)]
        #[kani::stub(alloc::string::ToString::to_string, stub_to_string_empty)]
        #[kani::stub(workspace_key, stub_workspace_key)]
        #[kani::stub(ContinuityStore::replay_events, env_replay)]
        #[kani::stub(ContinuityStore::create_continuity, env_create_continuity)]
        #[kani::stub(rip_log::EventLog::append, env_log_append)]
        #[kani::stub(ContinuityStreamCache::append_best_effort, env_cache_append_noop)]
        #[kani::stub(broadcast::Sender::send, env_send_noop)]
        fn $name() {
            let seqs: [u64; 3] = kani::any();
            kani::assume(seqs[0] < seqs[1] && seqs[1] < seqs[2]);
            let mut ids: [u8; 3] = kani::any();
            kani::assume((ids[1] == b'a' || ids[1] == b'b') && (ids[2] == b'a' || ids[2] == b'b'));
            let idp = ids.as_mut_ptr();
            let mut hist = core::mem::ManuallyDrop::new([
                h_created(seqs[0]),
                $k1(seqs[1], unsafe { idp.add(1) }),
                $k2(seqs[2], unsafe { idp.add(2) }),
            ]);
            let mut env = Env::new(hist.as_mut_ptr(), 3);
            let store = kani_store_env(&mut env);

            // selector
            let sel: u8 = kani::any();
            kani::assume(sel < 4);
            let want_seq: u64 = kani::any();
            let mut want_id_b: [u8; 1] = kani::any();
            kani::assume(want_id_b[0] == b'a' || want_id_b[0] == b'b' || want_id_b[0] == b'c');
            let from_seq = if sel == 1 || sel == 3 { Some(want_seq) } else { None };
            let from_mid = if sel == 2 || sel == 3 { Some(alias_str_raw(want_id_b.as_mut_ptr(), 1)) } else { None };

            let r = store.branch("p", None, from_mid, from_seq, lit("u"), lit("o"));

            // reference over the history
            let head = seqs[2];
            let is_msg = |e: &Event| matches!(e.kind, EventKind::ContinuityMessageAppended { .. });
            match &r {
                Ok((_tid, cut, mid)) => {
                    assert!(env.created == 1 && env.log_appends == 1, "branch must create the child and append exactly its lineage frame");
                    assert!(!env.last_on_parent, "branch appended a frame to the parent thread");
                    assert!(env.last_seq == 1 && env.last_kind == 1, "lineage frame is not continuity_branched at seq 1 of the child");
                    assert!(env.last_cut == *cut, "returned cut differs from the recorded cut");
                    assert!(*cut <= head, "recorded cut lies beyond the parent's head");
                    assert!(sel != 3, "conflicting selectors accepted");
                    if sel == 0 || sel == 1 {
                        let bound = if sel == 1 { want_seq } else { head };
                        assert!(*cut == bound, "cut is not the requested seq / the head");
                        // last message at or before the cut
                        let mut want: Option<u8> = None;
                        let mut j = 0;
                        while j < 3 {
                            if is_msg(&hist[j]) && seqs[j] <= bound {
                                want = Some(ids[j]);
                            }
                            j += 1;
                        }
                        match (want, mid) {
                            (None, None) => {}
                            (Some(w), Some(m)) => assert!(m.len() == 1 && m.as_bytes()[0] == w, "lineage names the wrong message"),
                            _ => assert!(false, "lineage message presence differs from the history"),
                        }
                    } else {
                        // requested message together with the end of the run that answered it
                        let w = want_id_b[0];
                        let mut found = false;
                        let mut maxrel = 0u64;
                        let mut j = 0;
                        while j < 3 {
                            let rel = match &hist[j].kind {
                                EventKind::ContinuityMessageAppended { .. } => {
                                    if ids[j] == w { found = true; true } else { false }
                                }
                                EventKind::ContinuityRunSpawned { .. } | EventKind::ContinuityRunEnded { .. } => ids[j] == w,
                                _ => false,
                            };
                            if rel && seqs[j] > maxrel {
                                maxrel = seqs[j];
                            }
                            j += 1;
                        }
                        assert!(found, "branch accepted a message id that is not a message of the parent");
                        assert!(*cut == maxrel, "cut is not the end of the requested message's run");
                        assert!(mid.as_ref().map(|m| m.len() == 1 && m.as_bytes()[0] == w).unwrap_or(false), "lineage names another message");
                    }
                    kani::cover!(sel == 2 || sel == 0, "accepted via the message-id selector (or, in shapes without a message, without selector)");
                    kani::cover!(sel == 1 && want_seq < head, "branch from a mid-thread seq accepted");
                }
                Err(_) => {
                    assert!(env.created == 0 && env.log_appends == 0, "a refused branch wrote something");
                    if sel == 1 {
                        assert!(want_seq > head, "an in-range from_seq was refused");
                    }
                    if sel == 0 {
                        assert!(false, "branch without selector refused on an existing thread");
                    }
                    kani::cover!(sel == 3, "conflicting selectors refused");
                }
            }
            core::mem::forget(r);
        }
    };
}
macro_rules! c10_handoff {
    ($name:ident, $k1:ident, $k2:ident) => {
        #[kani::proof]
        #[kani::unwind(6)]
        #[kani::stub(std::fmt::format, stub_fmt_format)]
        #[kani::stub(std::hash::RandomState::new, stub_random_state_new)]
        #[kani::stub(uuid::Uuid::new_v4, stub_uuid_v4)]
        #[kani::stub(now_ms, stub_now_ms_sym)]
        #[kani::stub(alloc::string::ToString::to_string, stub_to_string_empty)]
        #[kani::stub(workspace_key, stub_workspace_key)]
        #[kani::stub(ContinuityStore::replay_events, env_replay)]
        #[kani::stub(ContinuityStore::create_continuity, env_create_continuity)]
        #[kani::stub(rip_log::EventLog::append, env_log_append)]
        #[kani::stub(ContinuityStreamCache::append_best_effort, env_cache_append_noop)]
        #[kani::stub(broadcast::Sender::send, env_send_noop)]
        #[kani::stub(crate::handoff_context_bundle::write_bundle_v1, env_write_handoff_bundle)]
        fn $name() {
            let seqs: [u64; 3] = kani::any();
            kani::assume(seqs[0] < seqs[1] && seqs[1] < seqs[2]);
            let mut ids: [u8; 3] = kani::any();
            kani::assume((ids[1] == b'a' || ids[1] == b'b') && (ids[2] == b'a' || ids[2] == b'b'));
            let idp = ids.as_mut_ptr();
            let mut hist = core::mem::ManuallyDrop::new([
                h_created(seqs[0]),
                $k1(seqs[1], unsafe { idp.add(1) }),
                $k2(seqs[2], unsafe { idp.add(2) }),
            ]);
            let mut env = Env::new(hist.as_mut_ptr(), 3);
            let store = kani_store_env(&mut env);

            // selector
            let sel: u8 = kani::any();
            kani::assume(sel < 4);
            let want_seq: u64 = kani::any();
            let mut want_id_b: [u8; 1] = kani::any();
            kani::assume(want_id_b[0] == b'a' || want_id_b[0] == b'b' || want_id_b[0] == b'c');
            let from_seq = if sel == 1 || sel == 3 { Some(want_seq) } else { None };
            let from_mid = if sel == 2 || sel == 3 { Some(alias_str_raw(want_id_b.as_mut_ptr(), 1)) } else { None };

            // summary: none / text / artifact id / both
            let sum: u8 = kani::any();
            kani::assume(sum < 4);
            let summary = (
                if sum == 1 || sum == 3 { Some(lit("m")) } else { None },
                if sum == 2 || sum == 3 { Some(lit("i")) } else { None },
            );
            let r = store.handoff("p", None, summary, from_mid, from_seq, (lit("u"), lit("o")));
            if sum == 0 {
                assert!(r.is_err() && env.created == 0 && env.log_appends == 0 && env.replays == 0, "handoff without any summary must be refused before anything happens");
            }
            if r.is_ok() {
                assert!(env.last_has_summary_artifact, "handoff lineage frame carries no resolvable summary artifact");
                assert!((sum == 1) == (env.bundle_writes == 1), "summary artifact written exactly when only text was supplied");
            }

            // reference over the history
            let head = seqs[2];
            let is_msg = |e: &Event| matches!(e.kind, EventKind::ContinuityMessageAppended { .. });
            match &r {
                Ok((_tid, cut, mid)) => {
                    assert!(env.created == 1 && env.log_appends == 1, "handoff must create the child and append exactly its lineage frame");
                    assert!(!env.last_on_parent, "branch appended a frame to the parent thread");
                    assert!(env.last_seq == 1 && env.last_kind == 2, "lineage frame is not continuity_handoff_created at seq 1 of the child");
                    assert!(env.last_cut == *cut, "returned cut differs from the recorded cut");
                    assert!(*cut <= head, "recorded cut lies beyond the parent's head");
                    assert!(sel != 3, "conflicting selectors accepted");
                    if sel == 0 || sel == 1 {
                        let bound = if sel == 1 { want_seq } else { head };
                        assert!(*cut == bound, "cut is not the requested seq / the head");
                        // last message at or before the cut
                        let mut want: Option<u8> = None;
                        let mut j = 0;
                        while j < 3 {
                            if is_msg(&hist[j]) && seqs[j] <= bound {
                                want = Some(ids[j]);
                            }
                            j += 1;
                        }
                        match (want, mid) {
                            (None, None) => {}
                            (Some(w), Some(m)) => assert!(m.len() == 1 && m.as_bytes()[0] == w, "lineage names the wrong message"),
                            _ => assert!(false, "lineage message presence differs from the history"),
                        }
                    } else {
                        // requested message together with the end of the run that answered it
                        let w = want_id_b[0];
                        let mut found = false;
                        let mut maxrel = 0u64;
                        let mut j = 0;
                        while j < 3 {
                            let rel = match &hist[j].kind {
                                EventKind::ContinuityMessageAppended { .. } => {
                                    if ids[j] == w { found = true; true } else { false }
                                }
                                EventKind::ContinuityRunSpawned { .. } | EventKind::ContinuityRunEnded { .. } => ids[j] == w,
                                _ => false,
                            };
                            if rel && seqs[j] > maxrel {
                                maxrel = seqs[j];
                            }
                            j += 1;
                        }
                        assert!(found, "branch accepted a message id that is not a message of the parent");
                        assert!(*cut == maxrel, "cut is not the end of the requested message's run");
                        assert!(mid.as_ref().map(|m| m.len() == 1 && m.as_bytes()[0] == w).unwrap_or(false), "lineage names another message");
                    }
                    kani::cover!(sel == 2 || sel == 0, "accepted via the message-id selector (or, in shapes without a message, without selector)");
                    kani::cover!(sel == 1 && want_seq < head, "branch from a mid-thread seq accepted");
                }
                Err(_) => {
                    assert!(env.created == 0 && env.log_appends == 0, "a refused branch wrote something");
                    if sel == 1 && sum != 0 {
                        assert!(want_seq > head, "an in-range from_seq was refused");
                    }
                    if sel == 0 && sum != 0 {
                        assert!(false, "handoff without selector refused on an existing thread");
                    }
                    kani::cover!(sel == 3, "conflicting selectors refused");
                }
            }
            core::mem::forget(r);
        }
    };
}
macro_rules! c10_branch4 {
    ($name:ident, $k1:ident, $k2:ident, $k3:ident) => {
        #[kani::proof]
        #[kani::unwind(7)]
        #[kani::stub(std::fmt::format, stub_fmt_format)]
        #[kani::stub(std::hash::RandomState::new, stub_random_state_new)]
        #[kani::stub(uuid::Uuid::new_v4, stub_uuid_v4)]
        #[kani::stub(now_ms, stub_now_ms_sym)]
        #[kani::stub(alloc::string::ToString::to_string, stub_to_string_empty)]
        #[kani::stub(workspace_key, stub_workspace_key)]
        #[kani::stub(ContinuityStore::replay_events, env_replay)]
        #[kani::stub(ContinuityStore::create_continuity, env_create_continuity)]
        #[kani::stub(rip_log::EventLog::append, env_log_append)]
        #[kani::stub(ContinuityStreamCache::append_best_effort, env_cache_append_noop)]
        #[kani::stub(broadcast::Sender::send, env_send_noop)]
        fn $name() {
            let seqs: [u64; 4] = kani::any();
            kani::assume(seqs[0] < seqs[1] && seqs[1] < seqs[2] && seqs[2] < seqs[3]);
            let mut ids: [u8; 4] = kani::any();
            kani::assume((ids[1] == b'a' || ids[1] == b'b') && (ids[2] == b'a' || ids[2] == b'b') && (ids[3] == b'a' || ids[3] == b'b'));
            let idp = ids.as_mut_ptr();
            let mut hist = core::mem::ManuallyDrop::new([
                h_created(seqs[0]),
                $k1(seqs[1], unsafe { idp.add(1) }),
                $k2(seqs[2], unsafe { idp.add(2) }),
                $k3(seqs[3], unsafe { idp.add(3) }),
            ]);
            let mut env = Env::new(hist.as_mut_ptr(), 4);
            let store = kani_store_env(&mut env);

            // selector
            let sel: u8 = kani::any();
            kani::assume(sel < 4);
            let want_seq: u64 = kani::any();
            let mut want_id_b: [u8; 1] = kani::any();
            kani::assume(want_id_b[0] == b'a' || want_id_b[0] == b'b' || want_id_b[0] == b'c');
            let from_seq = if sel == 1 || sel == 3 { Some(want_seq) } else { None };
            let from_mid = if sel == 2 || sel == 3 { Some(alias_str_raw(want_id_b.as_mut_ptr(), 1)) } else { None };

            let r = store.branch("p", None, from_mid, from_seq, lit("u"), lit("o"));

            // reference over the history
            let head = seqs[3];
            let is_msg = |e: &Event| matches!(e.kind, EventKind::ContinuityMessageAppended { .. });
            match &r {
                Ok((_tid, cut, mid)) => {
                    assert!(env.created == 1 && env.log_appends == 1, "branch must create the child and append exactly its lineage frame");
                    assert!(!env.last_on_parent, "branch appended a frame to the parent thread");
                    assert!(env.last_seq == 1 && env.last_kind == 1, "lineage frame is not continuity_branched at seq 1 of the child");
                    assert!(env.last_cut == *cut, "returned cut differs from the recorded cut");
                    assert!(*cut <= head, "recorded cut lies beyond the parent's head");
                    assert!(sel != 3, "conflicting selectors accepted");
                    if sel == 0 || sel == 1 {
                        let bound = if sel == 1 { want_seq } else { head };
                        assert!(*cut == bound, "cut is not the requested seq / the head");
                        // last message at or before the cut
                        let mut want: Option<u8> = None;
                        let mut j = 0;
                        while j < 4 {
                            if is_msg(&hist[j]) && seqs[j] <= bound {
                                want = Some(ids[j]);
                            }
                            j += 1;
                        }
                        match (want, mid) {
                            (None, None) => {}
                            (Some(w), Some(m)) => assert!(m.len() == 1 && m.as_bytes()[0] == w, "lineage names the wrong message"),
                            _ => assert!(false, "lineage message presence differs from the history"),
                        }
                    } else {
                        // requested message together with the end of the run that answered it
                        let w = want_id_b[0];
                        let mut found = false;
                        let mut maxrel = 0u64;
                        let mut j = 0;
                        while j < 4 {
                            let rel = match &hist[j].kind {
                                EventKind::ContinuityMessageAppended { .. } => {
                                    if ids[j] == w { found = true; true } else { false }
                                }
                                EventKind::ContinuityRunSpawned { .. } | EventKind::ContinuityRunEnded { .. } => ids[j] == w,
                                _ => false,
                            };
                            if rel && seqs[j] > maxrel {
                                maxrel = seqs[j];
                            }
                            j += 1;
                        }
                        assert!(found, "branch accepted a message id that is not a message of the parent");
                        assert!(*cut == maxrel, "cut is not the end of the requested message's run");
                        assert!(mid.as_ref().map(|m| m.len() == 1 && m.as_bytes()[0] == w).unwrap_or(false), "lineage names another message");
                    }
                    kani::cover!(sel == 2 || sel == 0, "accepted via the message-id selector (or, in shapes without a message, without selector)");
                    kani::cover!(sel == 1 && want_seq < head, "branch from a mid-thread seq accepted");
                }
                Err(_) => {
                    assert!(env.created == 0 && env.log_appends == 0, "a refused branch wrote something");
                    if sel == 1 {
                        assert!(want_seq > head, "an in-range from_seq was refused");
                    }
                    if sel == 0 {
                        assert!(false, "branch without selector refused on an existing thread");
                    }
                    kani::cover!(sel == 3, "conflicting selectors refused");
                }
            }
            core::mem::forget(r);
        }
    };
}
c10_branch!(c10_branch_ms, h_message, h_run_spawned);
c10_branch!(c10_branch_mm, h_message, h_message);
c10_branch!(c10_branch_me, h_message, h_run_ended);
c10_branch!(c10_branch_sm, h_run_spawned, h_message);
c10_branch!(c10t_branch_se, h_run_spawned, h_run_ended);
c10_branch!(c10t_branch_em, h_run_ended, h_message);
c10_handoff!(c10_handoff_ms, h_message, h_run_spawned);
c10_handoff!(c10t_handoff_me, h_message, h_run_ended);
// 4-frame parents: a run frame of the requested message may follow a LATER message
c10_branch4!(c10_branch4_mme, h_message, h_message, h_run_ended);
c10_branch4!(c10t_branch4_mms, h_message, h_message, h_run_spawned);
c10_branch4!(c10t_branch4_mse, h_message, h_run_spawned, h_run_ended);

// ---------------------------------------------------------------------------------------------------------
// C01 / C05: one append step of the real append_* functions right after an authority restart
// (in-memory next-seq table empty => next seq recovered by load_next_seq_for from sidecar tail or truth replay).
//   effect order  : truth log line  <  sidecar line  <  broadcast        (a crash between two effects = a prefix)
//   lock          : the next-seq mutex is held at every one of these effects (asserted INSIDE the stubs)
//   numbering     : the appended frame carries last-truth-seq + 1 and the stream id of the thread
// Truth history: [created@0, message@1]  (T = 1).  Sidecar tail answer (shape constant LAG):
//   in sync: Ok(None) (sidecar missing) or Ok(Some(T));   lagging: Ok(Some(T-1)) -- the state left by a crash (or a
//   failed best-effort sidecar write) between the truth line and the sidecar line of frame T.
// ---------------------------------------------------------------------------------------------------------
#[repr(C)]
struct StepEnv {
    hist: *mut Event,
    hist_len: usize,
    store: *const ContinuityStore,
    sidecar_last: u64,
    sidecar_present: bool,
    effects: u32,      // global effect counter
    log_at: u32,       // position of the truth-log effect (1-based, 0 = did not happen)
    cache_at: u32,
    send_at: u32,
    log_seq: u64,
    log_stream_ok: bool,
    same_frame: bool,  // cache/broadcast saw the same seq as the log
    table_at_log: u64, // value of the in-memory next-seq entry at the moment of the truth-log append
    table: *const HashMap<String, u64>,
}
fn step_env_of(p: &Path) -> &mut StepEnv {
    unsafe { &mut *(p.as_os_str().as_encoded_bytes().as_ptr() as *mut StepEnv) }
}
fn step_lock_held(env: &StepEnv) -> bool {
    unsafe { (*env.store).next_seq.try_lock().is_err() }
}
fn step_replay(this: &ContinuityStore, _id: &str) -> io::Result<Vec<Event>> {
    let env = step_env_of(&this.data_dir);
    Ok(unsafe { alias_vec(env.hist, env.hist_len) })
}
fn step_last_seq(this: &ContinuityStreamCache, _id: &str) -> io::Result<Option<u64>> {
    let env = step_env_of(crate::continuity_stream_cache::verif_kani::kani_cache_dir(this));
    if env.sidecar_present {
        Ok(Some(env.sidecar_last))
    } else {
        Ok(None)
    }
}
fn step_log_append(this: &EventLog, event: &Event) -> io::Result<()> {
    let env = step_env_of(rip_log::verif_kani::kani_event_log_path(this));
    assert!(step_lock_held(env), "truth log written without holding the next-seq lock");
    env.effects += 1;
    env.log_at = env.effects;
    env.log_seq = event.seq;
    env.log_stream_ok = event.session_id.len() == 1 && event.session_id.as_bytes()[0] == b'p';
    env.table_at_log = step_table_state(env).1;
    Ok(())
}
fn step_cache_append(this: &ContinuityStreamCache, event: &Event) {
    let env = step_env_of(crate::continuity_stream_cache::verif_kani::kani_cache_dir(this));
    assert!(step_lock_held(env), "sidecar written without holding the next-seq lock");
    env.effects += 1;
    env.cache_at = env.effects;
    if event.seq != env.log_seq {
        env.same_frame = false;
    }
}
// the broadcast stub has no path to the context; it only checks it receives a frame and forgets it
fn step_send<T>(_this: &broadcast::Sender<T>, value: T) -> Result<usize, broadcast::error::SendError<T>> {
    core::mem::forget(value);
    Ok(0)
}

// The append_* critical sections (C01 "lock held from seq choice to log write, advance only after success", C05
// effect order). HashMap<String,u64> probing (hashbrown SIMD groups read back from a malloc'ed table) kept the first
// versions of this harness from finishing (700 s, 1200 s), and Kani 0.68 rejects every formulation of a
// `HashMap::get` stub. What works: only `HashMap::insert` is replaced -- by a model that records the inserted value in
// the map's own (fixed-key, otherwise unused) RandomState words and never touches the table. The real table therefore
// stays the empty singleton, the REAL `get` answers None immediately (items == 0), and the code under test takes its
// "next seq not cached => recover it" path: exactly the first append after an authority restart. The steady-state
// path (seq cached) shares everything after the seq choice with this one. Assumption: std's HashMap behaves as a map.
fn model_slot<K, V, S, A: std::alloc::Allocator>(m: &std::collections::HashMap<K, V, S, A>) -> *mut (u64, u64) {
    assert!(core::mem::size_of::<V>() == 8 && core::mem::size_of::<S>() == 16, "model map used for a table it does not model");
    m.hasher() as *const S as *mut (u64, u64)
}
// words: .0 = number of inserts so far, .1 = last inserted value
fn model_map_insert<K, V, S, A: std::alloc::Allocator>(this: &mut std::collections::HashMap<K, V, S, A>, k: K, v: V) -> Option<V> {
    let slot = model_slot(this);
    core::mem::forget(k);
    unsafe {
        (*slot).0 += 1;
        core::ptr::write(core::ptr::addr_of_mut!((*slot).1) as *mut V, v);
    }
    None
}
fn model_map_state<K, V, S, A: std::alloc::Allocator>(m: &std::collections::HashMap<K, V, S, A>) -> (u64, u64) {
    unsafe { *model_slot(m) }
}
fn step_table_state(env: &StepEnv) -> (u64, u64) {
    // called from inside the effect stubs while the append holds the lock: the harness took the table's address
    // (through a short lock) before the call
    unsafe { model_map_state(&*env.table) }
}
macro_rules! c05_append_step {
    ($name:ident, $lagging:expr, $call:expr) => {
        #[kani::proof]
        #[kani::unwind(3)]
        #[kani::stub(std::fmt::format, stub_fmt_format)]
        #[kani::stub(std::hash::RandomState::new, stub_random_state_new)]
        #[kani::stub(uuid::Uuid::new_v4, stub_uuid_v4)]
        #[kani::stub(now_ms, stub_now_ms_sym)]
        #[kani::stub(alloc::string::ToString::to_string, stub_to_string_keep_thread)]
        #[kani::stub(std::collections::HashMap::insert, model_map_insert)]
        #[kani::stub(ContinuityStore::replay_events, step_replay)]
        #[kani::stub(ContinuityStreamCache::try_read_last_seq, step_last_seq)]
        #[kani::stub(rip_log::EventLog::append, step_log_append)]
        #[kani::stub(ContinuityStreamCache::append_best_effort, step_cache_append)]
        #[kani::stub(broadcast::Sender::send, step_send)]
        fn $name() {
            let mut hist = core::mem::ManuallyDrop::new([h_created(0), h_message(1, b"a".as_ptr() as *mut u8)]);
            let t: u64 = 1;
            let sidecar_present: bool = if $lagging { true } else { kani::any() };
            let mut env = StepEnv {
                hist: hist.as_mut_ptr(), hist_len: 2, store: core::ptr::null(),
                sidecar_last: if $lagging { t - 1 } else { t }, sidecar_present,
                effects: 0, log_at: 0, cache_at: 0, send_at: 0, log_seq: 0, log_stream_ok: false, same_frame: true, table_at_log: 0, table: core::ptr::null(),
            };
            let envp: *mut StepEnv = &mut env;
            let store = mk_store!(envp as *mut Env);
            env.store = &store as *const ContinuityStore;
            let mut store = store;
            env.table = store.next_seq.get_mut().expect("seq mutex") as *const HashMap<String, u64>; // no lock taken
            env.store = &store as *const ContinuityStore;
            let f: fn(&ContinuityStore) -> Result<String, String> = $call;
            let r = f(&store);
            assert!(r.is_ok(), "append refused on an existing thread");
            assert!(env.log_at == 1, "the truth-log line is not the first effect of the append");
            assert!(env.cache_at == 2, "the sidecar line does not directly follow the truth-log line");
            assert!(env.same_frame, "sidecar received a different frame than the truth log");
            assert!(env.log_stream_ok, "frame appended under another stream id");
            assert!(env.log_seq == t + 1, "first append after restart does not continue the numbering (duplicate or gap)");
            assert!(env.table_at_log == env.log_seq, "the in-memory next seq was advanced BEFORE the truth-log append succeeded");
            let (inserts, last) = unsafe { model_map_state(&*env.table) };
            assert!(last == env.log_seq + 1, "in-memory next seq is not appended seq + 1 after a successful append");
            kani::cover!(inserts == 2, "recovered seq cached, then advanced");
            kani::cover!(!env.sidecar_present, "next seq recovered from truth replay");
            kani::cover!(env.sidecar_present, "next seq recovered from the sidecar tail");
            core::mem::forget(r);
            core::mem::forget(store);
        }
    };
}
// `x.to_string()` keeps the thread id "p" (it keys the next-seq table and becomes the frame's stream id); every other
// formatted string (uuids, error texts) is irrelevant here and becomes empty.
fn stub_to_string_keep_thread<T: core::fmt::Display + ?Sized>(t: &T) -> String {
    if core::mem::size_of_val(t) == 1 {
        // a 1-byte str: the thread id
        let p = t as *const T as *const u8;
        let mut s = String::with_capacity(1);
        s.push(unsafe { *p } as char);
        s
    } else {
        String::new()
    }
}

// NOT INSTANTIATED. Measured three more times (600 s, 400 s at unwind 6 and 3): even with the insert-only model map the
// mutex state and the table's `items` come back symbolic (Mutex::new / HashMap::new return by value; CBMC does not fold
// through the byte-wise move), so `lock()` explores the contended path and the real `get` probes garbage buckets.
// c05_append_step!(c01_append_message_step, false, |s| s.append_message("p", lit("u"), lit("o"), lit("x")));

// C05 recovery obligation on the real next-seq discovery: after a restart the next seq of a thread must be
// last-truth-seq + 1 whatever state the sidecar was left in. Truth: [created@s0, message@s1], seqs symbolic increasing.
macro_rules! c05_next_seq {
    ($name:ident, $lagging:expr) => {
        #[kani::proof]
        #[kani::unwind(6)]
        #[kani::stub(std::fmt::format, stub_fmt_format)]
        #[kani::stub(std::hash::RandomState::new, stub_random_state_new)]
        #[kani::stub(ContinuityStore::replay_events, step_replay)]
        #[kani::stub(ContinuityStreamCache::try_read_last_seq, step_last_seq)]
        fn $name() {
            let s0: u64 = kani::any();
            let t: u64 = kani::any();
            kani::assume(s0 < t && t < u64::MAX);
            let mut hist = core::mem::ManuallyDrop::new([h_created(s0), h_message(t, b"a".as_ptr() as *mut u8)]);
            let sidecar_present: bool = if $lagging { true } else { kani::any() };
            let mut env = StepEnv {
                hist: hist.as_mut_ptr(), hist_len: 2, store: core::ptr::null(),
                sidecar_last: if $lagging { t - 1 } else { t }, sidecar_present,
                effects: 0, log_at: 0, cache_at: 0, send_at: 0, log_seq: 0, log_stream_ok: false, same_frame: true, table_at_log: 0, table: core::ptr::null(),
            };
            let envp: *mut StepEnv = &mut env;
            let store = kani_store_env(envp as *mut Env);
            let next = match store.load_next_seq_for("p") {
                Ok(n) => n,
                Err(e) => {
                    core::mem::forget(e);
                    assert!(false, "next seq of an existing thread not recovered");
                    0
                }
            };
            assert!(next == t + 1, "next seq after restart is not last truth seq + 1 (duplicate or gap)");
            kani::cover!(!env.sidecar_present, "recovered from truth replay");
            kani::cover!(env.sidecar_present, "recovered from the sidecar tail");
        }
    };
}
c05_next_seq!(c05_next_seq_insync, false);

// The lagging-sidecar state (truth has frame T, sidecar ends at T-1): left behind by a crash -- or by a failed
// best-effort sidecar write -- between the truth line and the sidecar line of frame T.
#[kani::proof]
#[kani::unwind(6)]
#[kani::stub(std::fmt::format, stub_fmt_format)]
#[kani::stub(std::hash::RandomState::new, stub_random_state_new)]
#[kani::stub(ContinuityStore::replay_events, step_replay)]
#[kani::stub(ContinuityStreamCache::try_read_last_seq, step_last_seq)]
fn c05_next_seq_lagging_sidecar() {
    let s0: u64 = kani::any();
    let t: u64 = kani::any();
    kani::assume(s0 < t && t < u64::MAX);
    let mut hist = core::mem::ManuallyDrop::new([h_created(s0), h_message(t, b"a".as_ptr() as *mut u8)]);
    let mut env = StepEnv {
        hist: hist.as_mut_ptr(), hist_len: 2, store: core::ptr::null(),
        sidecar_last: t - 1, sidecar_present: true,
        effects: 0, log_at: 0, cache_at: 0, send_at: 0, log_seq: 0, log_stream_ok: false, same_frame: true, table_at_log: 0, table: core::ptr::null(),
    };
    let envp: *mut StepEnv = &mut env;
    let store = kani_store_env(envp as *mut Env);
    let next = match store.load_next_seq_for("p") {
        Ok(n) => n,
        Err(e) => {
            core::mem::forget(e);
            assert!(false, "next seq of an existing thread not recovered");
            0
        }
    };
    kani::cover!(true, "decided");
    assert!(next == t + 1, "next seq after restart trusts a sidecar that lags behind the truth log (duplicate seq)");
}

// ---------------------------------------------------------------------------------------------------------
// C02: read-only and no-op capabilities never write. The truth log's append is replaced by a stub that fails the
// harness when reached. The cache layer is ABSENT (every cache query answers "nothing"), so each capability runs its
// truth-replay path over a real 3-frame history [created, message a, message b] with symbolic increasing seqs.
// The cut-point instance doubles as C04(c)/C09: the truth path must give the same cut points as the reference.
// ---------------------------------------------------------------------------------------------------------
fn stub_log_append_unreachable(_this: &EventLog, _event: &Event) -> io::Result<()> {
    assert!(false, "a read-only / no-op capability wrote to the truth log");
    Ok(())
}
fn stub_message_count_absent(_this: &ContinuityStreamCache, _id: &str) -> io::Result<Option<u64>> {
    Ok(None)
}
fn stub_message_by_ordinal_absent(_this: &ContinuityStreamCache, _id: &str, _o: u64) -> io::Result<Option<(u64, String)>> {
    Ok(None)
}
fn stub_last_seq_absent(_this: &ContinuityStreamCache, _id: &str) -> io::Result<Option<u64>> {
    Ok(None)
}

macro_rules! c02_readonly {
    ($name:ident, $body:expr) => {
        #[kani::proof]
        #[kani::unwind(6)]
        #[kani::stub(std::fmt::format, stub_fmt_format)]
        #[kani::stub(std::hash::RandomState::new, stub_random_state_new)]
        #[kani::stub(uuid::Uuid::new_v4, stub_uuid_v4)]
        #[kani::stub(now_ms, stub_now_ms_sym)]
        #[kani::stub(alloc::string::ToString::to_string, stub_to_string_empty)]
        #[kani::stub(ContinuityStore::get, stub_get_some)]
        #[kani::stub(ContinuityStore::replay_events, env_replay)]
        #[kani::stub(rip_log::EventLog::append, stub_log_append_unreachable)]
        #[kani::stub(ContinuityStreamCache::append_best_effort, env_cache_append_noop)]
        #[kani::stub(broadcast::Sender::send, env_send_noop)]
        #[kani::stub(ContinuityStreamCache::scan_tail, stub_scan_none)]
        #[kani::stub(ContinuityStreamCache::message_count_messages_runs_v1, stub_message_count_absent)]
        #[kani::stub(ContinuityStreamCache::message_by_ordinal_messages_runs_v1, stub_message_by_ordinal_absent)]
        #[kani::stub(ContinuityStreamCache::latest_compaction_checkpoint_before_or_at_seq_v1, stub_latest_ckpt_none)]
        #[kani::stub(ContinuityStreamCache::try_read_last_seq, stub_last_seq_absent)]
        fn $name() {
            let seqs: [u64; 3] = kani::any();
            kani::assume(seqs[0] < seqs[1] && seqs[1] < seqs[2]);
            let mut ids: [u8; 3] = [b'c', b'a', b'b'];
            let idp = ids.as_mut_ptr();
            let mut hist = core::mem::ManuallyDrop::new([
                h_created(seqs[0]),
                h_message(seqs[1], unsafe { idp.add(1) }),
                h_message(seqs[2], unsafe { idp.add(2) }),
            ]);
            let mut env = Env::new(hist.as_mut_ptr(), 3);
            let store = kani_store_env(&mut env);
            let f: fn(&ContinuityStore, &[u64; 3]) = $body;
            f(&store, &seqs);
            assert!(env.replays >= 1, "with the cache layer absent the answer must come from truth replay");
            kani::cover!(true, "decided");
        }
    };
}

c02_readonly!(c02_readonly_cursor_status, |s, _seqs| {
    let r = s.provider_cursor_status_v1("p", ProviderCursorStatusV1Request {});
    match &r {
        Ok(resp) => assert!(resp.active.is_none() && resp.cursors.is_empty(), "cursor reported on a thread without cursor frames"),
        Err(_) => assert!(false, "status refused on an existing thread"),
    }
    core::mem::forget(r);
});
c02_readonly!(c02_readonly_cursor_rotate_named_noop, |s, _seqs| {
    // a rotate that NAMES a provider / endpoint which no cursor of the thread matches is still a no-op
    let mut req = rotate_req();
    req.provider = Some(lit("z"));
    req.endpoint = if kani::any() { Some(lit("e")) } else { None };
    let r = s.provider_cursor_rotate_v1("p", req);
    match &r {
        Ok(resp) => assert!(!resp.rotated && resp.cursor_event_id.is_none(), "rotation reported although no cursor matches the filter"),
        Err(_) => assert!(false, "rotate refused on an existing thread"),
    }
    core::mem::forget(r);
});
c02_readonly!(c02_readonly_cursor_rotate_noop, |s, _seqs| {
    let r = s.provider_cursor_rotate_v1("p", rotate_req());
    match &r {
        Ok(resp) => assert!(!resp.rotated && resp.cursor_event_id.is_none(), "rotation reported although no cursor exists"),
        Err(_) => assert!(false, "rotate refused on an existing thread"),
    }
    core::mem::forget(r);
});
c02_readonly!(c02_readonly_selection_status, |s, _seqs| {
    let limit: Option<u32> = if kani::any() { Some(kani::any()) } else { None };
    let r = s.context_selection_status_v1("p", ContextSelectionStatusV1Request { limit });
    match &r {
        Ok(resp) => assert!(resp.decisions.is_empty(), "selection decision reported on a thread without any"),
        Err(_) => assert!(false, "status refused on an existing thread"),
    }
    core::mem::forget(r);
});
fn cut_points_truth_body(s: &ContinuityStore, seqs: &[u64; 3]) {
    let stride: u64 = kani::any();
    kani::assume(stride >= 1 && stride <= 3);
    let r = s.compaction_cut_points_v1("p", CompactionCutPointsV1Request { stride_messages: Some(stride), limit: Some(1) });
    match &r {
        Ok(resp) => {
            // 2 messages: ordinals 1 (seq[1]) and 2 (seq[2]); latest multiple of the stride <= 2
            assert!(resp.message_count == 2, "message count differs from the truth log");
            if stride == 3 {
                assert!(resp.cut_points.is_empty(), "cut point planned beyond the thread");
            } else {
                assert!(resp.cut_points.len() == 1, "latest cut point missing");
                let ord = if stride == 1 { 2 } else { 2 };
                assert!(resp.cut_points[0].target_message_ordinal == ord, "truth path: wrong ordinal");
                assert!(resp.cut_points[0].to_seq == seqs[ord as usize], "truth path: cut point seq is not that message's seq");
                assert!(!resp.cut_points[0].already_checkpointed);
            }
        }
        Err(_) => assert!(false, "cut points refused on an existing thread"),
    }
    core::mem::forget(r);
}
c02_readonly!(c02_readonly_cut_points_truth, cut_points_truth_body);
// the same truth-path obligation, registered under C09 (planner on the truth-replay path = reference)
c02_readonly!(c09_cut_points_truth_path, cut_points_truth_body);


// ---------------------------------------------------------------------------------------------------------
// C04 / C08: the input of context compilation does not depend on which read path produced it.
// Truth: NT = 19 messages (ids 'A'+i, seqs s0+i, s0 symbolic). The messages+runs sidecar tail window holds only the
// last 17 of them and is NOT complete (older frames exist outside the window) -- the state of every thread longer than
// the first tail window. The anchor is ANY message of the window (symbolic). Larger windows, the seek-index window and
// the ordinal caches are absent, so the only other source is truth replay.
// Obligation (from the property): whichever path answers, the cut point is the frame before the next message (or the
// head) and the returned frames contain min(16, number of truth messages at or before the cut) messages at or before
// the cut -- i.e. a bounded tail may only be used when it already holds the documented 16-message context.
// ---------------------------------------------------------------------------------------------------------
const NT: usize = 19;
const TAIL: usize = 17;
#[repr(C)]
struct WinEnv {
    hist: *mut Event,
    hist_len: usize,
    replays: u32,
    tail: *mut Event,
    tail_len: usize,
    head: u64,
}
fn win_env(p: &Path) -> &mut WinEnv {
    unsafe { &mut *(p.as_os_str().as_encoded_bytes().as_ptr() as *mut WinEnv) }
}
fn win_scan_tail_mr(this: &ContinuityStreamCache, _id: &str, _max_events: usize, max_bytes: usize) -> io::Result<Option<TailScan>> {
    let env = win_env(crate::continuity_stream_cache::verif_kani::kani_cache_dir(this));
    if max_bytes > 256 * 1024 {
        return Ok(None);
    }
    Ok(Some(TailScan { events: unsafe { alias_vec(env.tail, env.tail_len) }, complete: false }))
}
fn win_last_seq(this: &ContinuityStreamCache, _id: &str) -> io::Result<Option<u64>> {
    let env = win_env(crate::continuity_stream_cache::verif_kani::kani_cache_dir(this));
    Ok(Some(env.head))
}
fn win_seek_window_absent(_this: &ContinuityStreamCache, _id: &str, _anchor: &str, _limit: usize) -> io::Result<Option<ContinuityWindow>> {
    Ok(None)
}
fn win_replay(this: &ContinuityStore, _id: &str) -> io::Result<Vec<Event>> {
    let env = win_env(&this.data_dir);
    env.replays += 1;
    Ok(unsafe { alias_vec(env.hist, env.hist_len) })
}

#[kani::proof]
#[kani::unwind(22)]
#[kani::stub(std::fmt::format, stub_fmt_format)]
#[kani::stub(std::hash::RandomState::new, stub_random_state_new)]
#[kani::stub(alloc::string::ToString::to_string, stub_to_string_empty)]
#[kani::stub(ContinuityStreamCache::scan_tail_messages_runs_v1, win_scan_tail_mr)]
#[kani::stub(ContinuityStreamCache::try_read_last_seq, win_last_seq)]
#[kani::stub(ContinuityStreamCache::window_recent_messages_v1_from_message_id, win_seek_window_absent)]
#[kani::stub(ContinuityStore::replay_events, win_replay)]
// NOT REGISTERED (name does not match the cNN_ convention): measured > 900 s at NT = 19 -- the documented limit of 16
// messages is a constant of the product, so the smallest history that distinguishes "window holds enough context"
// from "window too short" has 17+ frames, which is beyond what finishes. Seed C04 (seeded/C04) is therefore missed.
fn zz_c04_compile_input_incomplete_tail() {
    let s0: u64 = kani::any();
    kani::assume(s0 < (1u64 << 32));
    let mut ids: [u8; NT] = core::array::from_fn(|i| b'A' + i as u8);
    let idp = ids.as_mut_ptr();
    let mut hist: core::mem::ManuallyDrop<[Event; NT]> =
        core::mem::ManuallyDrop::new(core::array::from_fn(|i| h_message(s0 + i as u64, unsafe { idp.add(i) })));
    let head = s0 + (NT as u64 - 1);
    let mut env = WinEnv {
        hist: hist.as_mut_ptr(), hist_len: NT, replays: 0,
        tail: unsafe { hist.as_mut_ptr().add(NT - TAIL) }, tail_len: TAIL, head,
    };
    let envp: *mut WinEnv = &mut env;
    let store = kani_store_env(envp as *mut Env);

    // anchor: any message of the tail window
    let a: usize = kani::any();
    kani::assume(a >= NT - TAIL && a < NT);
    let mut anchor_b: [u8; 1] = [b'A' + a as u8];
    let anchor = unsafe { core::str::from_utf8_unchecked(&anchor_b) };

    let r = store.load_context_compile_input_recent_messages_v1("p", anchor);
    match &r {
        Ok(input) => {
            let want_cut = if a + 1 < NT { s0 + a as u64 } else { head };
            assert!(input.from_seq == want_cut, "cut point is not the frame before the next message (or the head)");
            let mut have = 0usize;
            let mut j = 0;
            while j < input.continuity_events.len() {
                if input.continuity_events[j].seq <= input.from_seq {
                    have += 1;
                }
                j += 1;
            }
            let truth = a + 1; // messages at or before the cut in the truth log
            let need = if truth < 16 { truth } else { 16 };
            assert!(have >= need, "compile input from a bounded cache window holds fewer messages than the truth log determines");
            kani::cover!(env.replays == 0, "answered from the bounded tail window");
            kani::cover!(env.replays == 1, "fell back to truth replay");
        }
        Err(_) => assert!(false, "compile input refused for an existing anchor"),
    }
    core::mem::forget(r);
}

// ---------------------------------------------------------------------------------------------------------
// C09: a cut point counts as checkpointed exactly when a checkpoint frame for that seq exists, the LATEST such frame
// (stream order) winning. Truth path (cache absent), history [created, message, checkpoint x, checkpoint y]; the two
// checkpoints' to_seq values are symbolic (each may or may not equal the message's seq; values above it must be
// ignored). stride 1, limit 1: the one cut point is the message.
// ---------------------------------------------------------------------------------------------------------
fn h_checkpoint(seq: u64, id: &'static str, to_seq: u64) -> Event {
    Event { id: lit("k"), session_id: lit("p"), timestamp_ms: 0, seq,
        kind: EventKind::ContinuityCompactionCheckpointCreated {
            checkpoint_id: lit(id), cut_rule_id: lit("r"), summary_kind: lit("s"), summary_artifact_id: lit("a"),
            from_seq: 0, from_message_id: None, to_seq, to_message_id: None, actor_id: lit("u"), origin: lit("o"),
        } }
}

#[kani::proof]
#[kani::unwind(7)]
#[kani::stub(std::fmt::format, stub_fmt_format)]
#[kani::stub(std::hash::RandomState::new, stub_random_state_new)]
#[kani::stub(alloc::string::ToString::to_string, stub_to_string_empty)]
#[kani::stub(ContinuityStore::get, stub_get_some)]
#[kani::stub(ContinuityStore::replay_events, env_replay)]
#[kani::stub(rip_log::EventLog::append, stub_log_append_unreachable)]
#[kani::stub(ContinuityStreamCache::message_count_messages_runs_v1, stub_message_count_absent)]
#[kani::stub(ContinuityStreamCache::message_by_ordinal_messages_runs_v1, stub_message_by_ordinal_absent)]
#[kani::stub(ContinuityStreamCache::latest_compaction_checkpoint_before_or_at_seq_v1, stub_latest_ckpt_none)]
#[kani::stub(ContinuityStreamCache::try_read_last_seq, stub_last_seq_absent)]
fn c09_cut_points_checkpointed_tiebreak() {
    let seqs: [u64; 4] = kani::any();
    kani::assume(seqs[0] < seqs[1] && seqs[1] < seqs[2] && seqs[2] < seqs[3] && seqs[3] < u64::MAX);
    let tx: u64 = kani::any();
    let ty: u64 = kani::any();
    let mut ids: [u8; 2] = [b'c', b'a'];
    let idp = ids.as_mut_ptr();
    let mut hist = core::mem::ManuallyDrop::new([
        h_created(seqs[0]),
        h_message(seqs[1], unsafe { idp.add(1) }),
        h_checkpoint(seqs[2], "x", tx),
        h_checkpoint(seqs[3], "y", ty),
    ]);
    let mut env = Env::new(hist.as_mut_ptr(), 4);
    let store = kani_store_env(&mut env);
    let r = store.compaction_cut_points_v1("p", CompactionCutPointsV1Request { stride_messages: Some(1), limit: Some(1) });
    match &r {
        Ok(resp) => {
            assert!(resp.cut_points.len() == 1 && resp.cut_points[0].to_seq == seqs[1], "the cut point is not the message");
            let cp = &resp.cut_points[0];
            let m = seqs[1];
            let want_already = tx == m || ty == m;
            assert!(cp.already_checkpointed == want_already, "cut point 'already checkpointed' differs from 'a checkpoint frame for that seq exists'");
            if want_already {
                let want_id = if ty == m { b'y' } else { b'x' }; // the later frame wins
                let got = cp.latest_checkpoint_id.as_ref().expect("checkpoint id reported");
                assert!(got.len() == 1 && got.as_bytes()[0] == want_id, "latest checkpoint for the cut point is not the latest frame in stream order");
            } else {
                assert!(cp.latest_checkpoint_id.is_none(), "checkpoint id reported for a cut point that is not checkpointed");
            }
            kani::cover!(tx == m && ty == m, "two checkpoints for the same seq");
            kani::cover!(tx > m && ty < m, "checkpoints beyond / before the cut point are ignored");
        }
        Err(_) => assert!(false, "cut points refused on an existing thread"),
    }
    core::mem::forget(r);
}

// ---------------------------------------------------------------------------------------------------------
// C08: the summary checkpoint selected for a compile is the latest by to_seq at or before the cut, the LATER frame
// winning ties -- on the truth path (checkpoint cache answers "nothing"). History [created, checkpoint x, checkpoint y],
// both to_seq values and the cut (from_seq) symbolic.
// ---------------------------------------------------------------------------------------------------------
#[kani::proof]
#[kani::unwind(6)]
#[kani::stub(std::fmt::format, stub_fmt_format)]
#[kani::stub(std::hash::RandomState::new, stub_random_state_new)]
#[kani::stub(ContinuityStore::replay_events, env_replay)]
#[kani::stub(ContinuityStreamCache::latest_compaction_checkpoint_before_or_at_seq_v1, stub_latest_ckpt_none)]
fn c08_latest_checkpoint_for_compile() {
    let seqs: [u64; 3] = kani::any();
    kani::assume(seqs[0] < seqs[1] && seqs[1] < seqs[2]);
    let tx: u64 = kani::any();
    let ty: u64 = kani::any();
    let from_seq: u64 = kani::any();
    let mut hist = core::mem::ManuallyDrop::new([
        h_created(seqs[0]),
        h_checkpoint(seqs[1], "x", tx),
        h_checkpoint(seqs[2], "y", ty),
    ]);
    let mut env = Env::new(hist.as_mut_ptr(), 3);
    let store = kani_store_env(&mut env);
    let r = store.latest_compaction_checkpoint_for_compile_v1("p", from_seq);
    match &r {
        Ok(sel) => {
            let ex = tx <= from_seq;
            let ey = ty <= from_seq;
            // reference: greatest eligible to_seq, later frame (y) on ties
            let want: Option<(u8, u64)> = if ex && ey {
                if tx > ty { Some((b'x', tx)) } else { Some((b'y', ty)) }
            } else if ex {
                Some((b'x', tx))
            } else if ey {
                Some((b'y', ty))
            } else {
                None
            };
            match (want, sel) {
                (None, None) => {}
                (Some((id, to)), Some(got)) => {
                    assert!(got.to_seq == to, "selected summary checkpoint is not the latest by to_seq at or before the cut");
                    assert!(got.checkpoint_id.len() == 1 && got.checkpoint_id.as_bytes()[0] == id, "tie between checkpoints not broken by stream order (later frame wins)");
                }
                _ => assert!(false, "summary checkpoint selected / not selected differently from the truth log"),
            }
            kani::cover!(ex && ey && tx == ty, "tie");
            kani::cover!(!ex && !ey, "no checkpoint at or before the cut");
        }
        Err(_) => assert!(false, "selection refused"),
    }
    core::mem::forget(r);
}

// ---------------------------------------------------------------------------------------------------------
// C09 / C02: the auto-compaction planner. compaction_cut_points_v1 is answered by a stub with two cut points (latest first)
// whose already-checkpointed flags are symbolic (carried to the stub through the thread-id context pointer);
// append_job_spawned is a stub that fails when reached. Shapes: dry run / real run with nothing new to do.
// Obligation: the plan is exactly the first clamp(max_new,1,32) not-yet-checkpointed cut points in latest-first order;
// a dry run, and a run with nothing to plan, append nothing (idempotence of a repeat).
// ---------------------------------------------------------------------------------------------------------
#[repr(C)]
struct PlanCtx {
    already0: bool,
    already1: bool,
}
fn plan_ctx_id(ctx: &PlanCtx) -> &str {
    unsafe { core::str::from_utf8_unchecked(core::slice::from_raw_parts(ctx as *const PlanCtx as *const u8, 0)) }
}
fn stub_cut_points_two(
    _this: &ContinuityStore,
    id: &str,
    req: CompactionCutPointsV1Request,
) -> Result<CompactionCutPointsV1Response, String> {
    let ctx = unsafe { &*(id.as_ptr() as *const PlanCtx) };
    assert!(req.limit == Some(32), "planner must look at the documented 32 latest cut points");
    let mut v = Vec::with_capacity(2);
    v.push(CompactionCutPointV1 { target_message_ordinal: 4, to_seq: 9, to_message_id: lit("m4"), already_checkpointed: ctx.already0, latest_checkpoint_id: None });
    v.push(CompactionCutPointV1 { target_message_ordinal: 2, to_seq: 5, to_message_id: lit("m2"), already_checkpointed: ctx.already1, latest_checkpoint_id: None });
    Ok(CompactionCutPointsV1Response {
        thread_id: String::new(),
        stride_messages: req.stride_messages.unwrap_or(0),
        message_count: 5,
        cut_rule_id: String::new(),
        cut_points: v,
    })
}
fn stub_append_job_spawned_unreachable(
    _this: &ContinuityStore,
    _id: &str,
    _job_id: &str,
    _job_kind: &str,
    details: Option<serde_json::Value>,
    _actor: String,
    _origin: String,
) -> Result<String, String> {
    core::mem::forget(details);
    assert!(false, "a dry run / a run with nothing new to do appended a job frame");
    Ok(String::new())
}

// (the job-details JSON is not the subject: serde_json::to_value -> Null keeps the spawn path, which symex explores
// because `planned.is_empty()` is not folded, affordable)
fn stub_to_value_null<T: serde::Serialize>(_v: T) -> Result<serde_json::Value, serde_json::Error> {
    Ok(serde_json::Value::Null)
}
macro_rules! c09_auto_plan {
    ($name:ident, $dry:expr, $all_done:expr) => {
        #[kani::proof]
        #[kani::unwind(6)]
        #[kani::stub(std::fmt::format, stub_fmt_format)]
        #[kani::stub(std::hash::RandomState::new, stub_random_state_new)]
        #[kani::stub(uuid::Uuid::new_v4, stub_uuid_v4)]
        #[kani::stub(alloc::string::ToString::to_string, stub_to_string_empty)]
        #[kani::stub(ContinuityStore::compaction_cut_points_v1, stub_cut_points_two)]
        #[kani::stub(ContinuityStore::append_job_spawned, stub_append_job_spawned_unreachable)]
        #[kani::stub(serde_json::to_value, stub_to_value_null)]
        fn $name() {
            let ctx = PlanCtx {
                already0: if $all_done { true } else { kani::any() },
                already1: if $all_done { true } else { kani::any() },
            };
            let stride: u64 = kani::any();
            let max_raw: u32 = kani::any();
            let max_new: Option<u32> = if kani::any() { Some(max_raw) } else { None };
            let store = kani_store();
            let r = store.compaction_auto_spawn_job_v1(
                plan_ctx_id(&ctx),
                CompactionAutoV1Request {
                    stride_messages: Some(stride),
                    max_new_checkpoints: max_new,
                    dry_run: if $dry { Some(true) } else { None },
                    actor_id: lit("u"),
                    origin: lit("o"),
                },
            );
            match &r {
                Err(_) => assert!(stride == 0, "auto-compaction refused although the stride is valid"),
                Ok(resp) => {
                    assert!(stride != 0, "stride 0 accepted");
                    assert!(resp.job_id.is_none(), "a job id was handed out for a no-op");
                    let cap = match max_new { None => 1u64, Some(m) => if m < 1 { 1 } else if m > 32 { 32 } else { m as u64 } };
                    // reference plan
                    let mut want: [u64; 2] = [0, 0];
                    let mut nw = 0usize;
                    if !ctx.already0 && (nw as u64) < cap { want[nw] = 4; nw += 1; }
                    if !ctx.already1 && (nw as u64) < cap { want[nw] = 2; nw += 1; }
                    assert!(resp.planned.len() == nw, "plan does not hold the first max_new not-yet-checkpointed cut points");
                    let mut j = 0;
                    while j < nw {
                        assert!(resp.planned[j].target_message_ordinal == want[j], "plan order / content differs from latest-first not-yet-checkpointed cut points");
                        j += 1;
                    }
                    kani::cover!(nw == 2 || $all_done, "two cut points planned (not in the nothing-new shape)");
                    kani::cover!(nw == 0 || nw == 1, "plan limited or partly done");
                }
            }
            core::mem::forget(r);
        }
    };
}
c09_auto_plan!(c09_auto_plan_dry_run, true, false);
// (does not finish in 600-800 s: without a constant dry_run flag symex explores the spawn path -- json! job details) c09_auto_plan!(c09_auto_plan_nothing_new, false, true);

// ---------------------------------------------------------------------------------------------------------
// C08 / C04: the cut point of a run is the frame before the next message after the triggering message (or the head),
// and the two resolvers -- over the bounded tail's message list and over the full replay -- agree on every history.
// History [K0, K1, K2] with K in {message, other} (shape), symbolic increasing seqs, message ids symbolic over {a,b};
// anchor id symbolic over {a,b,c}. The tail list is the faithful complete list of (seq,id) of the messages.
// ---------------------------------------------------------------------------------------------------------
macro_rules! c08_cutpoint {
    ($name:ident, $m0:expr, $m1:expr, $m2:expr) => {
        #[kani::proof]
        #[kani::unwind(6)]
        #[kani::stub(std::fmt::format, stub_fmt_format)]
        #[kani::stub(alloc::string::ToString::to_string, stub_to_string_empty)]
        fn $name() {
            const PAT: [bool; 3] = [$m0, $m1, $m2];
            let seqs: [u64; 3] = kani::any();
            kani::assume(seqs[0] < seqs[1] && seqs[1] < seqs[2]);
            let mut ids: [u8; 3] = kani::any();
            kani::assume((ids[0] == b'a' || ids[0] == b'b') && (ids[1] == b'a' || ids[1] == b'b') && (ids[2] == b'a' || ids[2] == b'b'));
            let idp = ids.as_mut_ptr();
            let hist: core::mem::ManuallyDrop<[Event; 3]> = core::mem::ManuallyDrop::new(core::array::from_fn(|i| {
                if PAT[i] { h_message(seqs[i], unsafe { idp.add(i) }) } else { h_run_spawned(seqs[i], unsafe { idp.add(i) }) }
            }));
            let mut anchor_b: [u8; 1] = kani::any();
            kani::assume(anchor_b[0] == b'a' || anchor_b[0] == b'b' || anchor_b[0] == b'c');
            let anchor = unsafe { core::str::from_utf8_unchecked(&anchor_b) };
            let head = seqs[2];

            // faithful tail list (stack-backed)
            let mut tail_store: core::mem::ManuallyDrop<[(u64, String); 3]> =
                core::mem::ManuallyDrop::new(core::array::from_fn(|i| (seqs[i], alias_str_raw(unsafe { idp.add(i) }, 1))));
            let mut tail_list: [(u64, String); 3] = unsafe { core::ptr::read(&*tail_store as *const [(u64, String); 3]) };
            // compact the messages to the front, keeping order
            let mut n = 0usize;
            let mut i = 0;
            while i < 3 {
                if PAT[i] {
                    tail_list.swap(n, i);
                    n += 1;
                }
                i += 1;
            }
            let from_tail = resolve_cutpoint_from_tail(&tail_list[..n], head, anchor);
            let from_full = resolve_context_compile_cutpoint_full(&hist[..], anchor);

            // reference
            let mut a_idx: Option<usize> = None;
            let mut j = 0;
            while j < 3 {
                if PAT[j] && ids[j] == anchor_b[0] && a_idx.is_none() {
                    a_idx = Some(j);
                }
                j += 1;
            }
            match (a_idx, &from_tail, &from_full) {
                (None, None, Err(_)) => {}
                (Some(a), Some((mseq, fseq)), Ok((full_from, full_id))) => {
                    let mut next: Option<u64> = None;
                    let mut k = a + 1;
                    while k < 3 {
                        if PAT[k] && next.is_none() {
                            next = Some(seqs[k]);
                        }
                        k += 1;
                    }
                    let want = match next { Some(s) => s - 1, None => head };
                    assert!(*mseq == seqs[a], "tail resolver: anchor seq wrong");
                    assert!(*fseq == want, "tail resolver: cut point is not the frame before the next message (or the head)");
                    assert!(*full_from == want, "full resolver: cut point is not the frame before the next message (or the head)");
                    assert!(*full_from >= seqs[a], "cut point below the triggering message");
                    assert!(full_id.is_some(), "cut point without its message id");
                }
                _ => assert!(false, "the two cut-point resolvers disagree on whether the triggering message exists"),
            }
            kani::cover!(a_idx.is_some(), "anchor found");
            kani::cover!(a_idx.is_none(), "anchor unknown");
            core::mem::forget(from_full);
            core::mem::forget(tail_list);
        }
    };
}
c08_cutpoint!(c08_cutpoint_mom, true, false, true);
c08_cutpoint!(c08_cutpoint_mmo, true, true, false);
c08_cutpoint!(c08_cutpoint_omm, false, true, true);
c08_cutpoint!(c08_cutpoint_mmm, true, true, true);

// C09 / C02: the scheduler's planner (a second implementation of the same plan) -- dry run: same plan as the reference,
// no decision frame, no job frame.
fn stub_append_schedule_decided_unreachable(
    _this: &ContinuityStore,
    _id: &str,
    payload: CompactionAutoScheduleDecidedPayload,
) -> Result<String, String> {
    core::mem::forget(payload);
    assert!(false, "a scheduler dry run appended a decision frame");
    Ok(String::new())
}

#[kani::proof]
#[kani::unwind(6)]
#[kani::stub(std::fmt::format, stub_fmt_format)]
#[kani::stub(std::hash::RandomState::new, stub_random_state_new)]
#[kani::stub(uuid::Uuid::new_v4, stub_uuid_v4)]
#[kani::stub(alloc::string::ToString::to_string, stub_to_string_empty)]
#[kani::stub(ContinuityStore::compaction_cut_points_v1, stub_cut_points_two)]
#[kani::stub(ContinuityStore::append_job_spawned, stub_append_job_spawned_unreachable)]
#[kani::stub(ContinuityStore::append_compaction_auto_schedule_decided, stub_append_schedule_decided_unreachable)]
#[kani::stub(ContinuityStore::find_inflight_compaction_job_id_best_effort_v1, stub_find_inflight_none)]
#[kani::stub(serde_json::to_value, stub_to_value_null)]
fn c09_schedule_plan_dry_run() {
    let ctx = PlanCtx { already0: kani::any(), already1: kani::any() };
    let stride: u64 = kani::any();
    let max_raw: u32 = kani::any();
    let max_new: Option<u32> = if kani::any() { Some(max_raw) } else { None };
    let store = kani_store();
    let r = store.compaction_auto_schedule_spawn_job_v1(
        plan_ctx_id(&ctx),
        CompactionAutoScheduleV1Request {
            stride_messages: Some(stride),
            max_new_checkpoints: max_new,
            block_on_inflight: if kani::any() { Some(kani::any()) } else { None },
            execute: if kani::any() { Some(kani::any()) } else { None },
            dry_run: Some(true),
            actor_id: lit("u"),
            origin: lit("o"),
        },
    );
    match &r {
        Err(_) => assert!(stride == 0, "scheduler refused although the stride is valid"),
        Ok(resp) => {
            assert!(stride != 0, "stride 0 accepted");
            assert!(resp.decision_id.is_none() && resp.job_id.is_none(), "a dry run handed out a decision / job id");
            let cap = match max_new { None => 1u64, Some(m) => if m < 1 { 1 } else if m > 32 { 32 } else { m as u64 } };
            let mut want: [u64; 2] = [0, 0];
            let mut nw = 0usize;
            if !ctx.already0 && (nw as u64) < cap { want[nw] = 4; nw += 1; }
            if !ctx.already1 && (nw as u64) < cap { want[nw] = 2; nw += 1; }
            assert!(resp.planned.len() == nw, "scheduler plan does not hold the first max_new not-yet-checkpointed cut points");
            let mut j = 0;
            while j < nw {
                assert!(resp.planned[j].target_message_ordinal == want[j], "scheduler plan order / content differs from the reference plan");
                j += 1;
            }
            kani::cover!(nw == 2, "two cut points planned");
            kani::cover!(nw == 0, "nothing to plan");
        }
    }
    core::mem::forget(r);
}

// C04: the fifth tail-window loop (input of context compilation) also terminates under an adversarial cache.
fn stub_seek_window_none(_this: &ContinuityStreamCache, _id: &str, _anchor: &str, _limit: usize) -> io::Result<Option<ContinuityWindow>> {
    Ok(None)
}
#[kani::proof]
#[kani::unwind(8)]
#[kani::stub(std::fmt::format, stub_fmt_format)]
#[kani::stub(std::hash::RandomState::new, stub_random_state_new)]
#[kani::stub(ContinuityStreamCache::scan_tail_messages_runs_v1, stub_scan_some)]
#[kani::stub(ContinuityStreamCache::try_read_last_seq, stub_last_seq_absent)]
#[kani::stub(ContinuityStreamCache::window_recent_messages_v1_from_message_id, stub_seek_window_none)]
#[kani::stub(ContinuityStore::replay_events, stub_replay_events_empty)]
fn c04_term_compile_input_some() {
    let store = kani_store();
    let r = store.load_context_compile_input_recent_messages_v1("t", "m");
    kani::cover!(r.is_err(), "empty thread reported");
    core::mem::forget(r);
}

// ---------------------------------------------------------------------------------------------------------
// C02 / C04: histories WITH a provider-cursor frame, cache layer absent (truth path).
//  - status: the active cursor reported is the thread's cursor frame (answer determined by the truth log), no write;
//  - rotate without filter: exactly ONE frame is appended (through append_provider_cursor_updated), none otherwise.
// History [created, cursor(provider "v"), message] with symbolic increasing seqs.
// ---------------------------------------------------------------------------------------------------------
fn h_cursor(seq: u64) -> Event {
    Event { id: lit("q"), session_id: lit("p"), timestamp_ms: 0, seq,
        kind: EventKind::ContinuityProviderCursorUpdated {
            provider: lit("v"), endpoint: None, model: None, cursor: None, action: lit("set"), reason: None,
            run_session_id: None, actor_id: lit("u"), origin: lit("o"),
        } }
}
fn env_append_cursor_count(this: &ContinuityStore, _id: &str, payload: ProviderCursorUpdatedPayload) -> Result<String, String> {
    let env = env_of_path(&this.data_dir);
    env.log_appends += 1;
    env.last_kind = if payload.action.len() == 0 { 9 } else { 8 };
    core::mem::forget(payload);
    Ok(lit("n"))
}

macro_rules! c02_cursor_history {
    ($name:ident, $body:expr) => {
        #[kani::proof]
        #[kani::unwind(6)]
        #[kani::stub(std::fmt::format, stub_fmt_format)]
        #[kani::stub(std::hash::RandomState::new, stub_random_state_new)]
        #[kani::stub(uuid::Uuid::new_v4, stub_uuid_v4)]
        #[kani::stub(now_ms, stub_now_ms_sym)]
        #[kani::stub(alloc::string::ToString::to_string, stub_to_string_empty)]
        #[kani::stub(ContinuityStore::get, stub_get_some)]
        #[kani::stub(ContinuityStore::replay_events, env_replay)]
        #[kani::stub(ContinuityStore::append_provider_cursor_updated, env_append_cursor_count)]
        #[kani::stub(rip_log::EventLog::append, stub_log_append_unreachable)]
        #[kani::stub(ContinuityStreamCache::scan_tail, stub_scan_none)]
        fn $name() {
            let seqs: [u64; 3] = kani::any();
            kani::assume(seqs[0] < seqs[1] && seqs[1] < seqs[2]);
            let mut ids: [u8; 1] = [b'a'];
            let mut hist = core::mem::ManuallyDrop::new([
                h_created(seqs[0]),
                h_cursor(seqs[1]),
                h_message(seqs[2], ids.as_mut_ptr()),
            ]);
            let mut env = Env::new(hist.as_mut_ptr(), 3);
            let store = kani_store_env(&mut env);
            let f: fn(&ContinuityStore, &Env, &[u64; 3]) = $body;
            f(&store, &env, &seqs);
            kani::cover!(true, "decided");
        }
    };
}
// NOT REGISTERED (macro renamed so the instance is not discovered): does not finish in 800 s -- the status fold inserts
// the cursor row into a HashMap keyed by (provider, endpoint, model).
c02_cursor_history!(zz_c02_cursor_status_found, |s, env, seqs| {
    let r = s.provider_cursor_status_v1("p", ProviderCursorStatusV1Request {});
    match &r {
        Ok(resp) => {
            let a = resp.active.as_ref().expect("active cursor reported");
            assert!(a.seq == seqs[1], "active cursor is not the thread's cursor frame");
            assert!(resp.cursors.len() == 1, "one provider key => one cursor row");
        }
        Err(_) => assert!(false, "status refused on an existing thread"),
    }
    assert!(env.log_appends == 0, "status call appended a frame");
    core::mem::forget(r);
});
c02_cursor_history!(c02_cursor_rotate_appends_once, |s, env, _seqs| {
    let r = s.provider_cursor_rotate_v1("p", rotate_req());
    match &r {
        Ok(resp) => assert!(resp.rotated && resp.cursor_event_id.is_some(), "existing cursor not rotated"),
        Err(_) => assert!(false, "rotate refused on an existing thread"),
    }
    assert!(env.log_appends == 1, "a rotate must append exactly one frame");
    core::mem::forget(r);
});

// ---------------------------------------------------------------------------------------------------------
// C10 / C05: creating a thread. The real create_continuity: exactly one frame, continuity_created at seq 0 under the
// NEW thread's id; the thread index is saved only AFTER the creation frame reached the truth log (a crash in between
// leaves a thread that ensure_default can find again from the log, never an index entry without a stream).
// ---------------------------------------------------------------------------------------------------------
fn env_index_path(data_dir: &Path) -> PathBuf {
    env_path(env_of_path(data_dir) as *mut Env)
}
fn env_save_index(path: &Path, _index: &ContinuityIndexV1) -> io::Result<()> {
    let env = env_of_path(path);
    // recorded in `created`: 0 = not saved, else the number of log appends that had happened when it was saved
    env.created = env.log_appends + 100;
    Ok(())
}
fn env_log_append_created(this: &EventLog, event: &Event) -> io::Result<()> {
    let env = env_of_path(rip_log::verif_kani::kani_event_log_path(this));
    env.log_appends += 1;
    env.last_seq = event.seq;
    env.last_on_parent = event.session_id.len() == 1 && event.session_id.as_bytes()[0] == b'k';
    env.last_kind = if matches!(event.kind, EventKind::ContinuityCreated { .. }) { 7 } else { 0 };
    assert!(env.created == 0, "thread index saved before the creation frame reached the truth log");
    Ok(())
}

#[kani::proof]
#[kani::unwind(6)]
#[kani::stub(std::fmt::format, stub_fmt_format)]
#[kani::stub(std::hash::RandomState::new, stub_random_state_new)]
#[kani::stub(uuid::Uuid::new_v4, stub_uuid_v4)]
#[kani::stub(now_ms, stub_now_ms_sym)]
#[kani::stub(alloc::string::ToString::to_string, stub_to_string_empty)]
#[kani::stub(index_path, env_index_path)]
#[kani::stub(save_index, env_save_index)]
#[kani::stub(rip_log::EventLog::append, env_log_append_created)]
#[kani::stub(ContinuityStreamCache::append_best_effort, env_cache_append_noop)]
#[kani::stub(broadcast::Sender::send, env_send_noop)]
fn c10_create_continuity_frame() {
    let mut dummy = core::mem::ManuallyDrop::new([h_created(0)]);
    let mut env = Env::new(dummy.as_mut_ptr(), 0);
    let store = kani_store_env(&mut env);
    let set_default: bool = kani::any();
    let r = store.create_continuity(lit("w"), Some(lit("k")), None, set_default);
    match &r {
        Ok(id) => {
            assert!(id.len() == 1 && id.as_bytes()[0] == b'k', "returned id is not the new thread's id");
            assert!(env.log_appends == 1, "thread creation must append exactly one frame");
            assert!(env.last_seq == 0 && env.last_kind == 7, "first frame of a thread is not continuity_created at seq 0");
            assert!(env.last_on_parent, "creation frame not recorded under the new thread's id");
            assert!(env.created == 101, "thread index not saved after (and only after) the creation frame");
        }
        Err(_) => assert!(false, "thread creation refused"),
    }
    kani::cover!(set_default, "created as the workspace default");
    core::mem::forget(r);
}

// ---------------------------------------------------------------------------------------------------------
// C01 / C05 / C03-kernel: ONE APPEND STEP of each of the 11 real append_* functions, taken right after an authority
// restart (the in-memory next-seq table is empty, so the seq is recovered through load_next_seq_for -- whose own
// obligation is the c05_next_seq family -- and here answers ANY u64 n).
//   numbering : exactly one frame reaches the truth log; it carries seq n and the thread's stream id, the right frame
//               type and the caller's payload
//   lock      : the next-seq mutex is held when the truth log and the sidecar are written (asserted inside the stubs)
//   advance   : at the moment of the truth-log write the in-memory next seq is still n (cached, NOT advanced); after the
//               call it is n + 1
//   effects   : truth log first, then the sidecar (handed the very same frame object), then the live channel, with a frame of the same seq / stream / type /
//               payload (so a thread-stream subscriber that subscribes and THEN replays the log misses nothing: C06)
// What made this finish (the earlier `c05_append_step!` never did): load_next_seq_for stubbed directly, the store built
// by kani_store_env, and only `HashMap::insert` replaced by the recording model (`model_map_insert`): the real table
// stays the empty singleton, the REAL `get` answers None at once. The steady-state arm (`Some(seq) => seq`) is therefore
// NOT exercised; everything after the seq choice is shared by both arms.
// ---------------------------------------------------------------------------------------------------------
#[repr(C)]
struct AEnv {
    next: u64,
    store: *const ContinuityStore,
    table: *const HashMap<String, u64>,
    effects: u32,
    log_at: u32,
    cache_at: u32,
    log_seq: u64,
    log_stream_ok: bool,
    log_kind: u8,
    payload_ok: bool,
    table_inserts_at_log: u64,
    table_value_at_log: u64,
    lock_held_at_log: bool,
    lock_held_at_cache: bool,
    log_event: usize,
    cache_same_event: bool,
    loads: u32,
    send_at: u32,
    send_same_frame: bool,
}
fn aenv_of(p: &Path) -> &mut AEnv {
    unsafe { &mut *(p.as_os_str().as_encoded_bytes().as_ptr() as *mut AEnv) }
}
fn a_load_next_seq(this: &ContinuityStore, _id: &str) -> Result<u64, io::Error> {
    let env = aenv_of(&this.data_dir);
    env.loads += 1;
    Ok(env.next)
}
fn is1(s: &str, b: u8) -> bool {
    s.len() == 1 && s.as_bytes()[0] == b
}
fn is1o(s: &Option<String>, b: u8) -> bool {
    match s {
        Some(s) => is1(s, b),
        None => false,
    }
}
// (frame type tag, payload equals what the harness passed)
fn a_kind_and_payload(kind: &EventKind) -> (u8, bool) {
    match kind {
        EventKind::ContinuityMessageAppended { actor_id, origin, content } => (1, is1(actor_id, b'u') && is1(origin, b'o') && is1(content, b'x')),
        EventKind::ContinuityRunSpawned { run_session_id, message_id, actor_id, origin } => (2, is1(run_session_id, b's') && is1(message_id, b'm') && is1o(actor_id, b'u') && is1o(origin, b'o')),
        EventKind::ContinuityContextSelectionDecided { run_session_id, message_id, compiler_id, compiler_strategy, actor_id, origin, compaction_checkpoint, reason, .. } =>
            (3, is1(run_session_id, b's') && is1(message_id, b'm') && is1(compiler_id, b'c') && is1(compiler_strategy, b'y') && is1(actor_id, b'u') && is1(origin, b'o') && compaction_checkpoint.is_none() && reason.is_none()),
        EventKind::ContinuityContextCompiled { run_session_id, bundle_artifact_id, compiler_id, compiler_strategy, from_seq, from_message_id, actor_id, origin } =>
            (4, is1(run_session_id, b's') && is1(bundle_artifact_id, b'b') && is1(compiler_id, b'c') && is1(compiler_strategy, b'y') && *from_seq == 7 && is1o(from_message_id, b'm') && is1(actor_id, b'u') && is1(origin, b'o')),
        EventKind::ContinuityProviderCursorUpdated { provider, endpoint, model, cursor, action, reason, run_session_id, actor_id, origin } =>
            (5, is1(provider, b'v') && is1o(endpoint, b'e') && model.is_none() && cursor.is_none() && is1(action, b'a') && reason.is_none() && is1o(run_session_id, b's') && is1(actor_id, b'u') && is1(origin, b'o')),
        EventKind::ContinuityCompactionCheckpointCreated { cut_rule_id, summary_kind, summary_artifact_id, from_seq, from_message_id, to_seq, to_message_id, actor_id, origin, .. } =>
            (6, is1(cut_rule_id, b'c') && is1(summary_kind, b'k') && is1(summary_artifact_id, b'b') && *from_seq == 3 && from_message_id.is_none() && *to_seq == 9 && is1o(to_message_id, b'm') && is1(actor_id, b'u') && is1(origin, b'o')),
        EventKind::ContinuityCompactionAutoScheduleDecided { decision_id, policy_id, decision, execute, stride_messages, max_new_checkpoints, message_count, job_id, actor_id, origin, .. } =>
            (7, is1(decision_id, b'd') && is1(policy_id, b'p') && is1(decision, b'n') && *execute && *stride_messages == 5 && *max_new_checkpoints == 2 && *message_count == 11 && job_id.is_none() && is1(actor_id, b'u') && is1(origin, b'o')),
        EventKind::ContinuityJobSpawned { job_id, job_kind, details, actor_id, origin } => (8, is1(job_id, b'j') && is1(job_kind, b'k') && details.is_none() && is1(actor_id, b'u') && is1(origin, b'o')),
        EventKind::ContinuityJobEnded { job_id, job_kind, status, result, error, actor_id, origin } => (9, is1(job_id, b'j') && is1(job_kind, b'k') && is1(status, b't') && result.is_none() && is1o(error, b'e') && is1(actor_id, b'u') && is1(origin, b'o')),
        EventKind::ContinuityRunEnded { run_session_id, message_id, reason, actor_id, origin } => (10, is1(run_session_id, b's') && is1(message_id, b'm') && is1(reason, b'r') && is1o(actor_id, b'u') && is1o(origin, b'o')),
        EventKind::ContinuityToolSideEffects { run_session_id, tool_id, tool_name, affected_paths, checkpoint_id, actor_id, origin } =>
            (11, is1(run_session_id, b's') && is1(tool_id, b't') && is1(tool_name, b'n') && affected_paths.is_none() && is1o(checkpoint_id, b'c') && is1(actor_id, b'u') && is1(origin, b'o')),
        _ => (0, false),
    }
}
fn a_lock_held(env: &AEnv) -> bool {
    unsafe { (*env.store).next_seq.try_lock().is_err() }
}
fn a_log_append(this: &EventLog, event: &Event) -> io::Result<()> {
    let env = aenv_of(rip_log::verif_kani::kani_event_log_path(this));
    env.effects += 1;
    env.log_at = env.effects;
    env.log_seq = event.seq;
    env.log_stream_ok = is1(&event.session_id, b'p');
    let (k, ok) = a_kind_and_payload(&event.kind);
    env.log_kind = k;
    env.payload_ok = ok;
    let (ins, val) = unsafe { model_map_state(&*env.table) };
    env.table_inserts_at_log = ins;
    env.table_value_at_log = val;
    env.lock_held_at_log = a_lock_held(env);
    env.log_event = event as *const Event as usize;
    Ok(())
}
fn a_cache_append(this: &ContinuityStreamCache, event: &Event) {
    let env = aenv_of(crate::continuity_stream_cache::verif_kani::kani_cache_dir(this));
    env.effects += 1;
    env.cache_at = env.effects;
    env.cache_same_event = env.log_event == event as *const Event as usize;
    env.lock_held_at_cache = a_lock_held(env);
}
// The broadcast stub is generic over the channel's item type and is handed nothing but the sender: it finds the recorder
// through the store that CONTAINS the sender (container-of on the harness's stack object).
fn a_send<T>(this: &broadcast::Sender<T>, value: T) -> Result<usize, broadcast::error::SendError<T>> {
    assert!(core::mem::size_of::<T>() == core::mem::size_of::<Event>(), "broadcast stub used for a channel it does not model");
    let store = unsafe {
        &*((this as *const broadcast::Sender<T> as *const u8).sub(core::mem::offset_of!(ContinuityStore, sender)) as *const ContinuityStore)
    };
    let env = aenv_of(&store.data_dir);
    env.effects += 1;
    env.send_at = env.effects;
    let ev = unsafe { &*(&value as *const T as *const Event) };
    let (k, ok) = a_kind_and_payload(&ev.kind);
    env.send_same_frame = ev.seq == env.log_seq && is1(&ev.session_id, b'p') && k == env.log_kind && ok;
    core::mem::forget(value);
    Ok(1)
}
macro_rules! c01_append_step {
    ($name:ident, $kind:expr, $call:expr) => {
        c01_append_step!($name, $kind, true, $call);
    };
    ($name:ident, $kind:expr, $broadcast:expr, $call:expr) => {
        #[kani::proof]
        #[kani::unwind(6)]
        #[kani::stub(std::fmt::format, stub_fmt_format)]
        #[kani::stub(std::hash::RandomState::new, stub_random_state_new)]
        #[kani::stub(uuid::Uuid::new_v4, stub_uuid_v4)]
        #[kani::stub(now_ms, stub_now_ms_sym)]
        #[kani::stub(alloc::string::ToString::to_string, stub_to_string_keep_thread)]
        #[kani::stub(ContinuityStore::load_next_seq_for, a_load_next_seq)]
        #[kani::stub(std::collections::HashMap::insert, model_map_insert)]
        #[kani::stub(rip_log::EventLog::append, a_log_append)]
        #[kani::stub(ContinuityStreamCache::append_best_effort, a_cache_append)]
        #[kani::stub(broadcast::Sender::send, a_send)]
        fn $name() {
            let n: u64 = kani::any();
            kani::assume(n < u64::MAX);
            let mut env = AEnv {
                next: n, store: core::ptr::null(), table: core::ptr::null(), effects: 0, log_at: 0, cache_at: 0, log_seq: 0,
                log_stream_ok: false, log_kind: 0, payload_ok: false, table_inserts_at_log: 0, table_value_at_log: 0,
                lock_held_at_log: false, lock_held_at_cache: false, log_event: 0, cache_same_event: false, loads: 0,
                send_at: 0, send_same_frame: false,
            };
            let envp: *mut AEnv = &mut env;
            let store = kani_store_env(envp as *mut Env);
            env.store = &*store as *const ContinuityStore;
            env.table = &*store.next_seq.lock().expect("seq mutex") as *const HashMap<String, u64>;
            let f: fn(&ContinuityStore) -> Result<String, String> = $call;
            let r = f(&store);
            assert!(r.is_ok(), "append refused on an existing thread");
            assert!(env.loads == 1, "next seq not recovered exactly once");
            assert!(env.log_at == 1, "the truth-log line is not the first effect of the append (or it was written twice / never)");
            assert!(env.log_seq == n, "appended frame does not carry the thread's next seq (duplicate or gap)");
            assert!(env.log_stream_ok, "frame appended under another stream id");
            assert!(env.log_kind == $kind, "frame of the wrong type appended");
            assert!(env.payload_ok, "appended frame does not carry the caller's payload");
            assert!(env.lock_held_at_log, "truth log written without holding the next-seq lock");
            assert!(env.table_inserts_at_log == 1 && env.table_value_at_log == n, "the in-memory next seq was advanced BEFORE the truth-log append succeeded (or not cached)");
            assert!(env.cache_at == 2, "the sidecar line does not directly follow the truth-log line (exactly once)");
            assert!(env.cache_same_event, "the sidecar was handed a different frame than the truth log");
            assert!(env.lock_held_at_cache, "sidecar written without holding the next-seq lock");
            if $broadcast {
                assert!(env.send_at == 3, "the frame is not published on the live channel exactly once, after the truth log and the sidecar");
                assert!(env.send_same_frame, "the live channel was handed a different frame than the truth log");
            } else {
                assert!(env.send_at == 0, "a frame that is not broadcast was published");
            }
            let (inserts, last) = model_map_state(&*store.next_seq.lock().expect("seq mutex"));
            assert!(inserts == 2 && last == n + 1, "in-memory next seq is not appended seq + 1 after a successful append");
            kani::cover!(n == 0, "decided for seq 0");
            kani::cover!(n > 1u64 << 40, "decided for a large seq");
            core::mem::forget(r);
        }
    };
}
c01_append_step!(c01_append_message, 1, |s| s.append_message("p", lit("u"), lit("o"), lit("x")));
c01_append_step!(c01_append_run_spawned, 2, |s| s.append_run_spawned("p", "m", "s", lit("u"), lit("o")));
// MEASURED: > 600 s (by-value serde_json::Value and two Vecs in the payload: their drop/clone glue is not folded). Not registered.
c01_append_step!(zz_c01_append_context_selection_decided, 3, |s| s.append_context_selection_decided("p", ContextSelectionDecidedPayload {
    run_session_id: lit("s"), message_id: lit("m"), compiler_id: lit("c"), compiler_strategy: lit("y"), limits: serde_json::Value::Null,
    compaction_checkpoint: None, compaction_checkpoints: Vec::new(), resets: Vec::new(), reason: None, actor_id: lit("u"), origin: lit("o") }));
c01_append_step!(c01_append_context_compiled, 4, |s| s.append_context_compiled("p", ContextCompiledPayload {
    run_session_id: lit("s"), bundle_artifact_id: lit("b"), compiler_id: lit("c"), compiler_strategy: lit("y"), from_seq: 7,
    from_message_id: Some(lit("m")), actor_id: lit("u"), origin: lit("o") }));
c01_append_step!(c01_append_provider_cursor_updated, 5, |s| s.append_provider_cursor_updated("p", ProviderCursorUpdatedPayload {
    provider: lit("v"), endpoint: Some(lit("e")), model: None, cursor: None, action: lit("a"), reason: None, run_session_id: Some(lit("s")),
    actor_id: lit("u"), origin: lit("o") }));
c01_append_step!(c01_append_compaction_checkpoint_created, 6, |s| s.append_compaction_checkpoint_created("p", CompactionCheckpointCreatedPayload {
    cut_rule_id: lit("c"), summary_kind: lit("k"), summary_artifact_id: lit("b"), from_seq: 3, from_message_id: None, to_seq: 9,
    to_message_id: Some(lit("m")), actor_id: lit("u"), origin: lit("o") }));
c01_append_step!(c01_append_auto_schedule_decided, 7, |s| s.append_compaction_auto_schedule_decided("p", CompactionAutoScheduleDecidedPayload {
    decision_id: lit("d"), policy_id: lit("p"), decision: lit("n"), execute: true, stride_messages: 5, max_new_checkpoints: 2,
    block_on_inflight: false, message_count: 11, cut_rule_id: lit("c"), planned: Vec::new(), job_id: None, job_kind: None, reason: None,
    actor_id: lit("u"), origin: lit("o") }));
c01_append_step!(c01_append_job_spawned, 8, |s| s.append_job_spawned("p", "j", "k", None, lit("u"), lit("o")));
c01_append_step!(c01_append_job_ended, 9, |s| s.append_job_ended("p", JobEndedPayload {
    job_id: lit("j"), job_kind: lit("k"), status: lit("t"), result: None, error: Some(lit("e")), actor_id: lit("u"), origin: lit("o") }));
c01_append_step!(c01_append_run_ended, 10, |s| s.append_run_ended("p", "m", "s", lit("r"), lit("u"), lit("o")));
c01_append_step!(c01_append_tool_side_effects, 11, |s| {
    let run = core::mem::ManuallyDrop::new(ContinuityRunLink { continuity_id: lit("p"), message_id: lit("m"), actor_id: lit("u"), origin: lit("o") });
    s.append_tool_side_effects(&run, "s", ToolSideEffects { tool_id: lit("t"), tool_name: lit("n"), affected_paths: None, checkpoint_id: Some(lit("c")) })
});
// the same step registered under C05: a crash between two effects leaves the truth log ahead of (never behind) the sidecar
c01_append_step!(c05_append_effects_message, 1, |s| s.append_message("p", lit("u"), lit("o"), lit("x")));
c01_append_step!(c05_append_effects_run_ended, 10, |s| s.append_run_ended("p", "m", "s", lit("r"), lit("u"), lit("o")));
