// Kani harnesses mounted into crates/ripd/src/continuities.rs (cfg(kani) only).
#![allow(unused_imports, dead_code)]
use super::*;
