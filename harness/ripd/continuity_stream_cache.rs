// Kani harnesses mounted into crates/ripd/src/continuity_stream_cache.rs (cfg(kani) only).
#![allow(unused_imports, dead_code)]
use super::*;

/// A cache handle for harnesses of `continuities.rs`; every query method they reach is stubbed, so `dir` is never used.
pub fn kani_cache() -> ContinuityStreamCache {
    ContinuityStreamCache { dir: PathBuf::new() }
}

pub fn kani_cache_at(dir: PathBuf) -> ContinuityStreamCache {
    ContinuityStreamCache { dir }
}
pub fn kani_cache_dir(cache: &ContinuityStreamCache) -> &Path {
    &cache.dir
}
