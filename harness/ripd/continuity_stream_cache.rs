// Kani harnesses mounted into crates/ripd/src/continuity_stream_cache.rs (cfg(kani) only).
#![allow(unused_imports, dead_code)]
use super::*;
