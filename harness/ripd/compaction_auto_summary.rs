// Kani harnesses mounted into crates/ripd/src/compaction_auto_summary.rs (cfg(kani) only).
#![allow(unused_imports, dead_code)]
use super::*;
