// C17 harnesses, included at the end of harness/ripd/tasks__logs.rs (module tasks::logs::verif_kani).
//
// (a) c17_log_append_*      : one inductive step of the real TaskLogWriter::append body (source slice, see
//                             /verif/gen/slice_task_logs.py) from ANY writer state satisfying the representation
//                             invariant, any chunk of 0..4 bytes, any short-write behaviour of the file.
// (b) c17_truncate_n*       : the real truncate_utf8 (the preview cut) on every byte string of N bytes, every limit.
// (c) c17_page_*            : the real read_artifact_range (verbatim source slice over a model file) -- one page
//                             from any character-boundary offset of any valid UTF-8 text: the inductive step of
//                             "reading page by page reproduces the stored output".
// (d) c17_utf8_ref_*        : justification of the reference UTF-8 validator stubbed in for core::str::from_utf8.

// ---- (d) ------------------------------------------------------------------------------------------------
#[kani::proof]
fn c17_utf8_ref_layout() {
    utf8_ref_layout_body();
}
utf8_ref_equiv!(c17_utf8_ref_equiv_len2, 2);
utf8_ref_equiv!(c17_utf8_ref_equiv_len3, 3);
utf8_ref_equiv!(c17_utf8_ref_equiv_len4, 4);

// Model of String::from_utf8_lossy: the identity on the bytes it is given. The preview / page text is then, byte for
// byte, the range the code under test decided to decode; whether that range is valid UTF-8 (=> the real lossy
// conversion is the identity too and the text is exact) is asserted by the harness with the reference validator.
fn stub_lossy_identity(v: &[u8]) -> std::borrow::Cow<'_, str> {
    std::borrow::Cow::Borrowed(unsafe { core::str::from_utf8_unchecked(v) })
}
fn text_is_prefix(text: &str, bytes: &[u8], from: usize, used: usize) -> bool {
    if text.len() != used {
        return false;
    }
    let t = text.as_bytes();
    let mut i = 0;
    while i < used {
        if t[i] != bytes[from + i] {
            return false;
        }
        i += 1;
    }
    true
}

// ---- (b) the preview cut ----------------------------------------------------------------------------------
macro_rules! c17_truncate {
    ($name:ident, $n:expr) => {
        #[kani::proof]
        #[kani::unwind(8)]
        #[kani::stub(std::fmt::format, stub_fmt_format)]
        #[kani::stub(std::str::from_utf8, stub_from_utf8)]
        #[kani::stub(alloc::string::String::from_utf8_lossy, stub_lossy_identity)]
        fn $name() {
            let bytes: [u8; $n] = kani::any();
            let max: usize = kani::any();
            kani::assume(max <= $n + 1);
            let (text, truncated, used) = truncate_utf8(&bytes, max);
            assert!(used <= max && used <= $n, "preview exceeds its limit");
            assert!(truncated == ($n > max), "preview truncation flag wrong");
            assert!(truncated || used == $n, "untruncated preview does not cover the whole output");
            assert!(text_is_prefix(&text, &bytes, 0, used), "preview is not the prefix of the captured bytes it accounts for");
            let whole_valid = ref_validate(&bytes).is_ok();
            if whole_valid {
                assert!(ref_validate(&bytes[..used]).is_ok(), "preview of valid text is cut inside a character");
                assert!(!truncated || used + 4 > max, "preview cut earlier than the last character boundary within the limit");
            }
            kani::cover!(whole_valid && truncated && used < max, "cut moved back to a character boundary");
            kani::cover!(!whole_valid && truncated, "invalid bytes, truncated");
        }
    };
}
c17_truncate!(c17_truncate_n3, 3);
c17_truncate!(c17_truncate_n4, 4);
c17_truncate!(c17t_truncate_n5, 5);
c17_truncate!(c17t_truncate_n6, 6);

// ---- (a) the log writer ------------------------------------------------------------------------------------
mod log_append_slice {
    #![allow(unused)]
    pub struct ModelFile {
        pub data: [u8; 8],
        pub len: usize,
        pub overflow: bool,
        pub zero_write: bool,
        pub writes: u32,
    }
    impl ModelFile {
        pub fn new(zero_write: bool) -> Self {
            ModelFile { data: [0; 8], len: 0, overflow: false, zero_write, writes: 0 }
        }
        // tokio's AsyncWriteExt::write contract: Ok(n) with 0 < n <= buf.len() (a short write), or Ok(0)
        pub fn write(&mut self, buf: &[u8]) -> std::io::Result<usize> {
            self.writes += 1;
            if self.zero_write {
                return Ok(0);
            }
            let n: usize = kani::any();
            kani::assume(n >= 1 && n <= buf.len());
            let mut i = 0;
            while i < n {
                if self.len < 8 {
                    self.data[self.len] = buf[i];
                    self.len += 1;
                } else {
                    self.overflow = true;
                }
                i += 1;
            }
            Ok(n)
        }
    }
    // recorder standing in for the serde_json::Value the real code builds with json!({...})
    #[derive(Default)]
    pub struct LogRef {
        pub offset_bytes: Option<u64>,
        pub bytes: Option<u64>,
        pub bytes_total: Option<u64>,
        pub bytes_stored: Option<u64>,
        pub truncated: Option<bool>,
        pub has_id: bool,
        pub has_path: bool,
        pub unknown: bool,
    }
    pub type Value = LogRef;
    pub trait SetField<T> {
        fn set(&mut self, key: &str, v: &T);
    }
    impl LogRef {
        fn set_num(&mut self, key: &str, v: u64) {
            match key {
                "offset_bytes" => self.offset_bytes = Some(v),
                "bytes" => self.bytes = Some(v),
                "bytes_total" => self.bytes_total = Some(v),
                "bytes_stored" => self.bytes_stored = Some(v),
                _ => self.unknown = true,
            }
        }
    }
    impl SetField<u64> for LogRef {
        fn set(&mut self, key: &str, v: &u64) {
            self.set_num(key, *v)
        }
    }
    impl SetField<usize> for LogRef {
        fn set(&mut self, key: &str, v: &usize) {
            self.set_num(key, *v as u64)
        }
    }
    impl SetField<bool> for LogRef {
        fn set(&mut self, key: &str, v: &bool) {
            match key {
                "truncated" => self.truncated = Some(*v),
                _ => self.unknown = true,
            }
        }
    }
    impl SetField<String> for LogRef {
        fn set(&mut self, key: &str, _v: &String) {
            match key {
                "id" => self.has_id = true,
                "path" => self.has_path = true,
                _ => self.unknown = true,
            }
        }
    }
    macro_rules! json {
        ({ $($k:literal : $v:expr),* $(,)? }) => {{
            let mut r = LogRef::default();
            $( SetField::set(&mut r, $k, &$v); )*
            r
        }};
    }
    pub struct ModelLogWriter {
        pub artifact_id: String,
        pub rel_path: String,
        pub file: ModelFile,
        pub max_bytes: u64,
        pub bytes_total: u64,
        pub bytes_stored: u64,
        pub truncated: bool,
    }
    include!("/verif/harness/gen/log_append_slice.rs");
}
use log_append_slice::{ModelFile, ModelLogWriter};

// Representation invariant of the writer between appends (no write error so far):
//   stored <= cap, stored <= total, truncated <=> stored < total, truncated => stored == cap.
fn log_writer_inv(max: u64, total: u64, stored: u64, truncated: bool) -> bool {
    stored <= max && stored <= total && truncated == (stored < total) && (!truncated || stored == max)
}

#[kani::proof]
#[kani::unwind(14)] // memcmp of the 12-byte field names in the recorder
#[kani::stub(std::fmt::format, stub_fmt_format)]
fn c17_log_append_step() {
    let max: u64 = kani::any();
    let stored: u64 = kani::any();
    let total: u64 = kani::any();
    let truncated: bool = kani::any();
    kani::assume(total < u64::MAX - 8);
    kani::assume(log_writer_inv(max, total, stored, truncated));
    let bytes: [u8; 4] = kani::any();
    let len: usize = kani::any();
    kani::assume(len <= 4);
    let mut w = ModelLogWriter {
        artifact_id: String::new(),
        rel_path: String::new(),
        file: ModelFile::new(false),
        max_bytes: max,
        bytes_total: total,
        bytes_stored: stored,
        truncated,
    };
    let r = w.append_slice(&bytes[..len]);
    let room = max - stored;
    let take: u64 = if (len as u64) < room { len as u64 } else { room };
    match r {
        Ok(v) => {
            assert!(!v.unknown && v.has_id && v.has_path, "log reference misses a field / carries an unknown one");
            assert!(v.offset_bytes == Some(stored), "output range does not start where the stored output ended (gap or overlap between consecutive ranges)");
            assert!(v.bytes == Some(take), "output range length is not the number of bytes stored for this chunk");
            assert!(v.bytes_stored == Some(stored + take) && w.bytes_stored == stored + take, "stored byte count not advanced by exactly the bytes stored");
            assert!(v.bytes_total == Some(total + len as u64) && w.bytes_total == total + len as u64, "total byte count is not what the process wrote");
            let trunc_now = truncated || take < len as u64;
            assert!(v.truncated == Some(trunc_now) && w.truncated == trunc_now, "truncation flag wrong");
        }
        Err(()) => assert!(false, "append failed although every write succeeded"),
    }
    assert!(!w.file.overflow && w.file.len as u64 == take, "bytes written to the log are not exactly the part of the chunk within the cap");
    let mut i = 0;
    while i < 4 {
        if (i as u64) < take {
            assert!(w.file.data[i] == bytes[i], "stored bytes differ from what the process wrote");
        }
        i += 1;
    }
    assert!(log_writer_inv(max, w.bytes_total, w.bytes_stored, w.truncated), "writer invariant not preserved");
    kani::cover!(take > 0 && take < len as u64, "chunk cut by the cap");
    kani::cover!(w.file.writes > 1, "short write retried");
    kani::cover!(take == 0 && len > 0, "cap already reached");
}

#[kani::proof]
#[kani::unwind(14)]
#[kani::stub(std::fmt::format, stub_fmt_format)]
fn c17_log_append_write_zero() {
    // the file accepts nothing (Ok(0)): the append reports failure and does not claim bytes it did not store
    let max: u64 = kani::any();
    let stored: u64 = kani::any();
    let total: u64 = kani::any();
    kani::assume(total < u64::MAX - 8 && stored < max && stored <= total);
    let bytes: [u8; 2] = kani::any();
    let mut w = ModelLogWriter {
        artifact_id: String::new(),
        rel_path: String::new(),
        file: ModelFile::new(true),
        max_bytes: max,
        bytes_total: total,
        bytes_stored: stored,
        truncated: false,
    };
    let r = w.append_slice(&bytes);
    assert!(r.is_err(), "append reports success although the file accepted nothing");
    assert!(w.bytes_stored == stored, "stored byte count advanced without data");
    kani::cover!(w.file.writes == 1, "write attempted");
    core::mem::forget(r);
}

// ---- (c) one page of stored output -------------------------------------------------------------------------
mod page_slice {
    #![allow(unused)]
    // everything the sliced function may call in its own module (glob: local definitions below take precedence)
    use super::super::*;
    // the id check is not the subject (and its 64-iteration loop would force the unwind bound of every loop)
    pub fn is_lower_hex_64(_v: &str) -> bool {
        true
    }
    pub struct Disk {
        pub data: [u8; 8],
        pub total: u64,
        pub opens: u32,
    }
    pub static mut DISK: Disk = Disk { data: [0; 8], total: 0, opens: 0 };
    pub mod std {
        pub use ::std::io;
        pub use ::std::path;
        pub mod fs {
            use ::std::io;
            pub struct Meta(pub u64);
            impl Meta {
                pub fn len(&self) -> u64 {
                    self.0
                }
            }
            pub fn metadata<P: AsRef<::std::path::Path>>(_p: P) -> io::Result<Meta> {
                Ok(Meta(unsafe { super::super::DISK.total }))
            }
            pub struct File {
                pos: u64,
            }
            impl File {
                pub fn open<P: AsRef<::std::path::Path>>(_p: P) -> io::Result<File> {
                    unsafe { super::super::DISK.opens += 1 };
                    Ok(File { pos: 0 })
                }
                pub fn seek(&mut self, to: io::SeekFrom) -> io::Result<u64> {
                    if let io::SeekFrom::Start(o) = to {
                        self.pos = o;
                    }
                    Ok(self.pos)
                }
                // regular file: read returns min(buf.len(), bytes left)
                pub fn read(&mut self, buf: &mut [u8]) -> io::Result<usize> {
                    let total = unsafe { super::super::DISK.total };
                    let mut n = 0usize;
                    while n < buf.len() && self.pos < total && self.pos < 8 {
                        buf[n] = unsafe { super::super::DISK.data[self.pos as usize] };
                        n += 1;
                        self.pos += 1;
                    }
                    Ok(n)
                }
            }
        }
    }
    include!("/verif/harness/gen/read_artifact_range_slice.rs");
}

macro_rules! c17_page {
    ($name:ident, $n:expr, $page:expr, $maxoff:expr, $unwind:expr) => {
        #[kani::proof]
        #[kani::unwind($unwind)]
        #[kani::stub(std::fmt::format, stub_fmt_format)]
        #[kani::stub(std::str::from_utf8, stub_from_utf8)]
        #[kani::stub(alloc::string::String::from_utf8_lossy, stub_lossy_identity)]
        fn $name() {
            assert!(Vec::<u8>::new().capacity() == 0, "canary: tool mis-models constants in this harness");
            let text: [u8; $n] = kani::any();
            let off: usize = kani::any();
            kani::assume(off <= $maxoff);
            let valid = ref_validate(&text).is_ok() && ref_validate(&text[..off]).is_ok();
            unsafe {
                let mut i = 0;
                while i < $n {
                    page_slice::DISK.data[i] = text[i];
                    i += 1;
                }
                page_slice::DISK.total = $n as u64;
            }
            let config = TaskEngineConfig { workspace_root: PathBuf::from("/w"), artifact_max_bytes: 64, max_bytes: 64 };
            let id = "a";
            let r = page_slice::read_artifact_range(&config, id, off as u64, $page);
            match &r {
                Ok((content, used, total, truncated)) => {
                    let used = *used;
                    assert!(*total == $n as u64, "total size misreported");
                    assert!(used <= $page && off + used <= $n, "page exceeds its limit or the file");
                    assert!(used > 0, "a page of a non-empty remainder makes no progress");
                    assert!(text_is_prefix(content, &text, off, used), "page text is not the stored bytes it accounts for");
                    assert!(*truncated == (off + used < $n), "truncated flag does not tell whether more output follows");
                    if valid {
                        assert!(ref_validate(&text[off..off + used]).is_ok(),
                            "a multi-byte character straddling the page boundary is decoded lossily: reading page by page does not reproduce the stored text");
                    }
                }
                Err(_) => assert!(false, "page of an existing artifact refused"),
            }
            kani::cover!(valid && text[off + $page - 1] >= 0xC2, "valid text, a lead byte is the last byte the page limit admits");
            kani::cover!(!valid, "binary output");
            core::mem::forget(r);
            core::mem::forget(config);
        }
    };
}
c17_page!(c17_page_n5_p4, 5, 4, 1, 9);
c17_page!(c17t_page_n6_p4, 6, 4, 2, 9);
c17_page!(c17t_page_n6_p5, 6, 5, 1, 9);
c17_page!(c17t_page_n7_p4, 7, 4, 3, 10);
