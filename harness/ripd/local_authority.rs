// Kani harnesses mounted into crates/ripd/src/local_authority.rs (cfg(kani) only).
#![allow(unused_imports, dead_code)]
use super::*;
include!("/verif/harness/common.rs");

// ---------------------------------------------------------------------------------------------------------
// C18: stale / corrupt lock cleanup over a MODEL of the authority directory.
// Slots: lock.json in {absent, record(pid), corrupt}, meta.json in {absent, present(pid)}. The file-system calls and the
// two record readers are stubs over that model. The caller's contract is part of the model: the pid passed to the stale
// cleanup is DEAD (callers verify it), every other pid that appears is ALIVE.
// Schedules: Kani is sequential, so a second contender B is run INSIDE the rename stub: just before A's rename of the
// lock takes effect, B may (symbolic choice, shape-enabled) perform its own complete recovery -- remove the dead
// authority's files and acquire the lock with its own live pid. This is the one interleaving point between A's re-read
// of the record and A's rename.
// The model state lives in a static (the fs stubs only receive paths); a canary assertion guards against the
// static-mut mis-modelling observed with other ripd harnesses.
// ---------------------------------------------------------------------------------------------------------
#[derive(Clone, Copy, PartialEq, Eq)]
enum LockSlot {
    Absent,
    Record(u32),
    Corrupt,
}
struct AuthModel {
    lock: LockSlot,
    meta_pid: Option<u32>,
    dead_pid: u32,
    allow_preemption: bool,
    preempted: bool,
    lock_renames: u32,
    renamed_live_lock: bool,
    renamed_lock_pid: Option<u32>,
    meta_renames: u32,
}
static mut AM: AuthModel = AuthModel {
    lock: LockSlot::Absent, meta_pid: None, dead_pid: 0, allow_preemption: false, preempted: false,
    lock_renames: 0, renamed_live_lock: false, renamed_lock_pid: None, meta_renames: 0,
};
fn am() -> &'static mut AuthModel {
    unsafe { &mut *core::ptr::addr_of_mut!(AM) }
}
const B_PID: u32 = 77; // contender B, alive

fn path_is(p: &Path, name: &[u8]) -> bool {
    let b = p.as_os_str().as_encoded_bytes();
    if b.len() < name.len() {
        return false;
    }
    let off = b.len() - name.len();
    let mut i = 0;
    while i < name.len() {
        if b[off + i] != name[i] {
            return false;
        }
        i += 1;
    }
    true
}
fn a_exists(this: &Path) -> bool {
    if path_is(this, b"lock.json") {
        am().lock != LockSlot::Absent
    } else if path_is(this, b"meta.json") {
        am().meta_pid.is_some()
    } else {
        false
    }
}
fn a_read_lock<P: AsRef<Path>>(_data_dir: P) -> Result<Option<AuthorityLockRecord>, String> {
    match am().lock {
        LockSlot::Absent => Ok(None),
        LockSlot::Corrupt => Err(String::new()),
        LockSlot::Record(pid) => Ok(Some(AuthorityLockRecord { pid, started_at_ms: 0, workspace_root: String::new() })),
    }
}
fn a_read_meta<P: AsRef<Path>>(_data_dir: P) -> Result<Option<AuthorityMeta>, String> {
    match am().meta_pid {
        None => Ok(None),
        Some(pid) => Ok(Some(AuthorityMeta { endpoint: String::new(), pid, started_at_ms: 0, workspace_root: String::new() })),
    }
}
fn a_rename<P: AsRef<Path>, Q: AsRef<Path>>(from: P, _to: Q) -> std::io::Result<()> {
    let m = am();
    if path_is(from.as_ref(), b"lock.json") {
        // interleaving point: contender B recovers the dead authority's files and acquires
        if m.allow_preemption && !m.preempted && kani::any() {
            m.preempted = true;
            if let LockSlot::Record(pid) = m.lock {
                if pid == m.dead_pid {
                    m.lock = LockSlot::Record(B_PID);
                    if m.meta_pid == Some(m.dead_pid) {
                        m.meta_pid = Some(B_PID);
                    }
                }
            }
        }
        m.lock_renames += 1;
        match m.lock {
            LockSlot::Absent => return Err(std::io::Error::from(std::io::ErrorKind::NotFound)),
            LockSlot::Record(pid) => {
                m.renamed_lock_pid = Some(pid);
                if pid != m.dead_pid {
                    m.renamed_live_lock = true;
                }
            }
            LockSlot::Corrupt => {
                m.renamed_lock_pid = None;
            }
        }
        m.lock = LockSlot::Absent;
        Ok(())
    } else if path_is(from.as_ref(), b"meta.json") {
        m.meta_renames += 1;
        m.meta_pid = None;
        Ok(())
    } else {
        Ok(())
    }
}
fn a_remove_file<P: AsRef<Path>>(_p: P) -> std::io::Result<()> {
    Ok(()) // only tombstones are removed by the functions under test
}
fn a_now_ms() -> u64 {
    kani::any()
}
fn a_process_id() -> u32 {
    5
}
fn stub_to_string_e<T: core::fmt::Display + ?Sized>(_t: &T) -> String {
    String::new()
}

macro_rules! c18_stale_cleanup {
    ($name:ident, $preempt:expr) => {
        #[kani::proof]
        #[kani::unwind(12)]
        #[kani::stub(std::fmt::format, stub_fmt_format)]
        #[kani::stub(alloc::string::ToString::to_string, stub_to_string_e)]
        #[kani::stub(now_ms, a_now_ms)]
        #[kani::stub(std::path::Path::exists, a_exists)]
        #[kani::stub(read_authority_lock_record, a_read_lock)]
        #[kani::stub(read_authority_meta, a_read_meta)]
        #[kani::stub(std::fs::rename, a_rename)]
        #[kani::stub(std::fs::remove_file, a_remove_file)]
        fn $name() {
            let canary: Vec<u8> = Vec::new();
            assert!(canary.capacity() == 0, "kani-model-canary: constant mis-modelled");
            let dead: u32 = kani::any();
            let other: u32 = kani::any();
            kani::assume(dead != other && dead != B_PID && other != B_PID);
            let lock_kind: u8 = kani::any();
            kani::assume(lock_kind < 4);
            {
                let m = am();
                m.dead_pid = dead;
                m.allow_preemption = $preempt;
                m.lock = match lock_kind {
                    0 => LockSlot::Absent,
                    1 => LockSlot::Record(dead),
                    2 => LockSlot::Record(other), // a LIVE authority's lock
                    _ => LockSlot::Corrupt,
                };
                let meta_kind: u8 = kani::any();
                kani::assume(meta_kind < 3);
                m.meta_pid = match meta_kind {
                    0 => None,
                    1 => Some(dead),
                    _ => Some(other),
                };
            }
            let pre_lock = am().lock;
            let pre_meta = am().meta_pid;
            let r = try_cleanup_stale_authority_files(Path::new("/d"), dead, kani::any());
            let cleaned = match &r {
                Ok(b) => *b,
                Err(_) => false,
            };
            assert!(!am().renamed_live_lock, "stale cleanup removed the lock of a LIVE authority");
            if !am().preempted {
                if cleaned {
                    assert!(pre_lock == LockSlot::Record(dead) && am().lock == LockSlot::Absent, "cleanup reported success without removing the dead authority's lock");
                    assert!(am().meta_pid != Some(dead), "dead authority's endpoint file left behind");
                    assert!(pre_meta != Some(other) || am().meta_pid == Some(other), "cleanup removed the endpoint file of another (live) authority");
                } else {
                    assert!(am().lock == pre_lock && am().meta_pid == pre_meta, "cleanup changed files although it reported nothing to clean");
                    assert!(pre_lock != LockSlot::Record(dead), "a dead authority's lock was not cleaned up (store stays wedged)");
                }
            }
            kani::cover!(cleaned, "dead authority's files cleaned");
            kani::cover!(!cleaned && pre_lock == LockSlot::Record(other), "live authority left alone");
            core::mem::forget(r);
        }
    };
}
c18_stale_cleanup!(c18_stale_cleanup_sequential, false);
// One preemption of A by a recovering contender B between A's re-read of the lock record and A's rename.
c18_stale_cleanup!(c18_stale_cleanup_one_preemption, true);

// Corrupt-lock cleanup (caller contract: invoked only while the lock record cannot be parsed, after the grace period).
#[kani::proof]
#[kani::unwind(12)]
#[kani::stub(std::fmt::format, stub_fmt_format)]
#[kani::stub(alloc::string::ToString::to_string, stub_to_string_e)]
#[kani::stub(now_ms, a_now_ms)]
#[kani::stub(std::process::id, a_process_id)]
#[kani::stub(std::path::Path::exists, a_exists)]
#[kani::stub(std::fs::rename, a_rename)]
#[kani::stub(std::fs::remove_file, a_remove_file)]
fn c18_corrupt_cleanup_sequential() {
    let canary: Vec<u8> = Vec::new();
    assert!(canary.capacity() == 0, "kani-model-canary: constant mis-modelled");
    let live: u32 = kani::any();
    kani::assume(live != B_PID);
    {
        let m = am();
        m.dead_pid = 0;
        m.allow_preemption = false;
        m.lock = if kani::any() { LockSlot::Corrupt } else { LockSlot::Absent };
        m.meta_pid = if kani::any() { Some(live) } else { None };
    }
    let pre_lock = am().lock;
    let pre_meta = am().meta_pid;
    let r = try_cleanup_corrupt_lock_file(Path::new("/d"));
    let cleaned = match &r {
        Ok(b) => *b,
        Err(_) => false,
    };
    if cleaned {
        assert!(pre_lock == LockSlot::Corrupt && pre_meta.is_none(), "corrupt-lock cleanup acted although an endpoint file exists (an authority is advertising itself)");
        assert!(am().lock == LockSlot::Absent, "cleanup reported success without removing the corrupt lock");
    } else {
        assert!(am().lock == pre_lock, "cleanup changed the lock although it reported nothing to clean");
        assert!(!(pre_lock == LockSlot::Corrupt && pre_meta.is_none()), "a corrupt lock without endpoint file was not cleaned up (store stays wedged)");
    }
    assert!(am().meta_pid == pre_meta, "corrupt-lock cleanup touched the endpoint file");
    kani::cover!(cleaned, "corrupt lock removed");
    kani::cover!(!cleaned && pre_meta.is_some(), "left alone because an endpoint file exists");
    core::mem::forget(r);
}

// vacuity twin (thorough tier)
#[kani::proof]
#[kani::unwind(12)]
#[kani::stub(std::fmt::format, stub_fmt_format)]
#[kani::stub(alloc::string::ToString::to_string, stub_to_string_e)]
#[kani::stub(now_ms, a_now_ms)]
#[kani::stub(std::path::Path::exists, a_exists)]
#[kani::stub(read_authority_lock_record, a_read_lock)]
#[kani::stub(read_authority_meta, a_read_meta)]
#[kani::stub(std::fs::rename, a_rename)]
#[kani::stub(std::fs::remove_file, a_remove_file)]
fn c18tx_stale_cleanup_twin() {
    let dead: u32 = kani::any();
    kani::assume(dead != B_PID);
    am().dead_pid = dead;
    am().lock = LockSlot::Record(dead);
    am().meta_pid = None;
    let r = try_cleanup_stale_authority_files(Path::new("/d"), dead, 0);
    kani::cover!(matches!(r, Ok(true)), "cleaned");
    core::mem::forget(r);
    assert!(false, "vacuity-witness");
}
