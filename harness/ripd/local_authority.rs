// Kani harnesses mounted into crates/ripd/src/local_authority.rs (cfg(kani) only).
#![allow(unused_imports, dead_code)]
use super::*;
