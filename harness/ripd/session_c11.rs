// C11 harnesses, included from harness/ripd/session.rs when VERIF_SLICE_C11 selects them (module session::verif_kani).
//
// No two workspace-mutating executions are in progress at the same time, and the side-effects frames of tool calls are
// appended in the order of the mutations. The three places that run a mutating execution are async code over a tokio
// semaphore; their locked sections are sliced from the current source (gen/slice_workspace_lock.py) and run over model
// objects: lock, tool runner, task runners, sink, store. Every operation of a model object is a yield point; at one of them
// (solver's choice) a SECOND mutating execution -- another of the three sliced sections -- starts. It begins by acquiring
// the workspace lock, so it can start only while the model lock is free (a blocked acquire that proceeds after the release
// is the same schedule as starting at the yield point after the release); once started it runs to its end (its own
// critical section excludes the first actor exactly when the code under test really holds the guard).
mod ws_lock {
    #![allow(unused, non_camel_case_types)]
    pub struct World {
        pub lock_held: bool,
        pub acquires: u32,
        pub mutating: bool,
        pub overlap: bool,
        pub mut_order: [u8; 4],
        pub n_mut: usize,
        pub mut_done: [bool; 3],
        pub frame_order: [u8; 4],
        pub n_frames: usize,
        pub frame_before_mutation_end: bool,
        pub cur_actor: u8,
        pub b_pending: bool,
        pub b_running: bool,
        pub b_site: u8,
        pub b_inside_a: bool,
        pub a_active: bool,
    }
    impl World {
        pub fn new(b_site: u8) -> World {
            World { lock_held: false, acquires: 0, mutating: false, overlap: false, mut_order: [0; 4], n_mut: 0, mut_done: [false; 3],
                    frame_order: [0; 4], n_frames: 0, frame_before_mutation_end: false, cur_actor: 1, b_pending: true, b_running: false,
                    b_site, b_inside_a: false, a_active: false }
        }
        pub fn run_b(&mut self) {
            let wp: *mut World = self;
            self.b_pending = false;
            self.b_running = true;
            self.cur_actor = 2;
            if self.a_active {
                self.b_inside_a = true;
            }
            run_site(wp, self.b_site);
            self.cur_actor = 1;
            self.b_running = false;
        }
        pub fn yield_point(&mut self) {
            if self.b_running {
                return;
            }
            // B may start at ANY yield point; its (blocking) acquire assumes the lock free, which prunes the schedules in which it
            // would have to wait (they equal the schedule that starts it after the release). A non-blocking use of the lock
            // (try-acquire, select! with another future) is thereby explored while the lock is HELD.
            if self.b_pending && kani::any::<bool>() {
                self.run_b();
            }
        }
        fn mutate(&mut self) {
            self.yield_point();
            if self.mutating {
                self.overlap = true;
            }
            let prev = self.mutating;
            let me = self.cur_actor;
            self.mutating = true;
            if self.n_mut < 4 {
                self.mut_order[self.n_mut] = me;
                self.n_mut += 1;
            }
            self.yield_point(); // the mutation is in progress here
            self.mutating = prev;
            self.mut_done[me as usize] = true;
            self.yield_point();
        }
    }
    #[derive(Clone, Copy)]
    pub struct ModelUnit(pub *mut World);
    impl ModelUnit {
        // a watch receiver's `changed()`: may complete at any time (a cancel request can arrive at any moment)
        pub fn changed(&mut self) -> Result<(), ()> {
            Ok(())
        }
    }
    // tokio::select! over two futures, as far as the locked sections might use it: either branch whose future can complete is
    // taken (solver's choice); a lock acquisition can complete only while the lock is free (its model assumes so)
    pub mod tokio {
        macro_rules! select {
            ($p1:pat = $e1:expr => $b1:expr, $p2:pat = $e2:expr => $b2:expr $(,)?) => {
                if kani::any::<bool>() {
                    let $p1 = $e1;
                    $b1
                } else {
                    let $p2 = $e2;
                    $b2
                }
            };
        }
        pub(crate) use select;
    }
    #[derive(Clone, Copy)]
    pub struct ModelId;
    pub struct ModelInvocation;
    pub struct ModelEvents(pub u8);
    pub struct ModelEffects(pub u8);
    pub struct ModelOutput;
    pub struct ModelLink;
    pub struct ModelCall {
        pub name: ModelId,
    }
    pub struct ModelSession;
    impl ModelSession {
        pub fn set_seq(&mut self, _s: u64) {}
        pub fn seq(&self) -> u64 {
            0
        }
    }
    pub enum CheckpointCommand {
        Create { label: ModelId, files: Vec<String> },
        Rewind { id: ModelId },
    }
    pub use std::path::PathBuf;
    pub struct ModelLock(pub *mut World);
    pub struct ModelGuard(*mut World);
    impl ModelLock {
        pub fn acquire(&self) -> ModelGuard {
            let w = unsafe { &mut *self.0 };
            w.yield_point();
            kani::assume(!w.lock_held); // blocking acquire: completes only while the lock is free
            w.lock_held = true;
            w.acquires += 1;
            ModelGuard(self.0)
        }
    }
    impl Drop for ModelGuard {
        fn drop(&mut self) {
            let w = unsafe { &mut *self.0 };
            w.lock_held = false;
            w.yield_point();
        }
    }
    pub struct ModelRunner(pub *mut World);
    impl ModelRunner {
        pub fn run(&self, _id: &ModelId, seq: &mut u64, _inv: ModelInvocation) -> ModelEvents {
            let w = unsafe { &mut *self.0 };
            w.mutate();
            *seq += 1;
            ModelEvents(w.cur_actor)
        }
    }
    impl ModelRunner {
        pub fn create_checkpoint(&self, _id: &ModelId, seq: &mut u64, _label: ModelId, files: Vec<PathBuf>) -> ModelEvents {
            core::mem::forget(files);
            let w = unsafe { &mut *self.0 };
            w.mutate();
            *seq += 1;
            ModelEvents(w.cur_actor)
        }
        pub fn rewind_checkpoint(&self, _id: &ModelId, seq: &mut u64, _cp: &ModelId) -> ModelEvents {
            let w = unsafe { &mut *self.0 };
            w.mutate();
            *seq += 1;
            ModelEvents(w.cur_actor)
        }
    }
    pub fn summarize_continuity_tool_side_effects(ev: &ModelEvents) -> Option<ModelEffects> {
        Some(ModelEffects(ev.0))
    }
    pub fn tool_events_to_function_call_output(_name: &ModelId, _ev: &ModelEvents) -> ModelOutput {
        ModelOutput
    }
    pub fn emit_events(_ev: ModelEvents, sender: &ModelUnit, _events: &ModelUnit, _log: &ModelUnit) {
        unsafe { (*sender.0).yield_point() };
    }
    pub struct ModelSink(pub *mut World);
    impl ModelSink {
        pub fn emit_all(&self, _ev: ModelEvents) {
            unsafe { (*self.0).yield_point() };
        }
    }
    pub struct ModelStore(pub *mut World);
    impl ModelStore {
        pub fn append_tool_side_effects(&self, _link: &ModelLink, _id: &ModelId, eff: ModelEffects) -> Result<ModelId, ()> {
            let w = unsafe { &mut *self.0 };
            w.yield_point();
            if !w.mut_done[eff.0 as usize] {
                w.frame_before_mutation_end = true;
            }
            if w.n_frames < 4 {
                w.frame_order[w.n_frames] = eff.0;
                w.n_frames += 1;
            }
            w.yield_point();
            Ok(ModelId)
        }
    }
    // background tasks
    #[derive(Clone, Copy)]
    pub enum ToolTaskExecutionMode {
        Pipes,
        Pty,
    }
    pub struct TaskRunContext {
        pub config: ModelUnit,
        pub emitter: ModelUnit,
        pub args: ModelUnit,
        pub artifact_max_bytes: ModelUnit,
        pub max_bytes: ModelUnit,
        pub spawn_time_ms: ModelUnit,
        pub cancel_rx: ModelUnit,
    }
    pub mod pipes {
        pub fn run_pipes_task(handle: &super::ModelUnit, _ctx: super::TaskRunContext) {
            unsafe { (*handle.0).mutate() };
        }
    }
    pub mod pty {
        pub fn run_pty_task(handle: &super::ModelUnit, _ctx: super::TaskRunContext) {
            unsafe { (*handle.0).mutate() };
        }
    }
    impl World {
        pub fn mutate_pub(&mut self) {
            self.mutate()
        }
    }
    pub fn finalize_snapshot(handle: &ModelUnit, _dir: &ModelUnit) {
        unsafe { (*handle.0).yield_point() };
    }
    include!("/verif/harness/gen/workspace_lock_slice.rs");

    // one complete mutating execution through the sliced section `site`
    pub fn run_site(wp: *mut World, site: u8) {
        let u = ModelUnit(wp);
        let lock = ModelLock(wp);
        if site == 1 {
            let mut session = ModelSession;
            site1(&lock, &ModelRunner(wp), ModelId, 0, ModelInvocation, &mut session, u, u, u, Some(ModelLink), &ModelStore(wp));
        } else if site == 2 {
            let mut seq = 0u64;
            let link = ModelLink;
            let _ = site2(&lock, &ModelRunner(wp), &ModelId, &mut seq, ModelInvocation, &ModelCall { name: ModelId }, &ModelSink(wp), Some(&link), &ModelStore(wp));
        } else if site == 3 {
            let mode = if kani::any() { ToolTaskExecutionMode::Pipes } else { ToolTaskExecutionMode::Pty };
            site3(&lock, mode, u, u, u, u, u, u, u, u, u);
        } else {
            let mut session = ModelSession;
            let command = if kani::any() { CheckpointCommand::Create { label: ModelId, files: Vec::new() } } else { CheckpointCommand::Rewind { id: ModelId } };
            site4(&lock, &ModelRunner(wp), ModelId, command, &mut session, u, u, u);
        }
    }
}

macro_rules! c11_two_executions {
    ($name:ident, $a_site:expr, $b_site:expr, $frames:expr) => {
        #[kani::proof]
        #[kani::unwind(6)]
        fn $name() {
            use ws_lock::*;
            let mut w = World::new($b_site);
            let wp: *mut World = &mut w;
            unsafe {
                (*wp).yield_point();
                (*wp).a_active = true;
            }
            run_site(wp, $a_site);
            unsafe {
                (*wp).a_active = false;
                (*wp).yield_point();
            }
            let w = unsafe { &mut *wp };
            if w.b_pending {
                w.run_b();
            }
            assert!(!w.overlap, "two workspace-mutating executions were in progress at the same time");
            assert!(w.n_mut == 2 && w.acquires == 2, "a mutating execution did not run exactly once under one lock acquisition");
            assert!(!w.lock_held, "workspace lock still held after the execution ended");
            assert!(w.n_frames == $frames, "a mutating tool call attached to a thread did not yield exactly one side-effects frame");
            assert!(!w.frame_before_mutation_end, "side-effects frame written before the tool finished");
            // the order of the frames equals the real order of the mutations (restricted to the executions that write frames)
            let mut fi = 0usize;
            let mut mi = 0usize;
            while mi < w.n_mut {
                let actor = w.mut_order[mi];
                let writes_frame = (actor == 1 && $a_site < 3) || (actor == 2 && $b_site < 3);
                if writes_frame {
                    assert!(fi < w.n_frames && w.frame_order[fi] == actor, "side-effects frames are not in the order of the mutations");
                    fi += 1;
                }
                mi += 1;
            }
            kani::cover!(w.mut_order[0] == 2, "the second execution mutated first");
            kani::cover!(w.mut_order[0] == 1 && !w.b_inside_a, "the second execution came after the first");
        }
    };
}
c11_two_executions!(c11_tool_vs_loop_tool, 1, 2, 2);
c11_two_executions!(c11_loop_tool_vs_task, 2, 3, 1);
c11_two_executions!(c11_task_vs_tool, 3, 1, 1);
c11_two_executions!(c11_loop_tool_vs_loop_tool, 2, 2, 2);
c11_two_executions!(c11_checkpoint_vs_tool, 4, 1, 1);
c11_two_executions!(c11_task_vs_checkpoint, 3, 4, 0);
