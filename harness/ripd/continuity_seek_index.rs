// Kani harnesses mounted into crates/ripd/src/continuity_seek_index.rs (cfg(kani) only).
#![allow(unused_imports, dead_code)]
use super::*;
