// Kani harnesses mounted into crates/ripd/src/continuity_seek_index.rs (cfg(kani) only).
#![allow(unused_imports, dead_code)]
use super::*;

// C04(b): the seek index lookup equals its specification on every monotonic index: the offset of the LAST entry whose
// seq <= target, or 0 when there is none (then the reader scans from the start of the sidecar).
macro_rules! c04_best_offset {
    ($name:ident, $n:expr) => {
        #[kani::proof]
        #[kani::unwind(8)]
        fn $name() {
            let seqs: [u64; $n] = kani::any();
            let offs: [u64; $n] = kani::any();
            let mut i = 1;
            while i < $n {
                kani::assume(seqs[i - 1] < seqs[i]); // index entries are strictly increasing by seq
                i += 1;
            }
            let entries: [SeqSeekIndexEntryV1; $n] = core::array::from_fn(|i| SeqSeekIndexEntryV1::new(seqs[i], offs[i]));
            let target: u64 = kani::any();
            let got = best_offset_for_seq(&entries, target);
            // reference: linear scan
            let mut want = 0u64;
            let mut j = 0;
            while j < $n {
                if seqs[j] <= target {
                    want = offs[j];
                }
                j += 1;
            }
            assert!(got == want, "seek index lookup is not the last entry with seq <= target");
            kani::cover!($n > 0 && seqs[0] > target, "target before the first entry");
            kani::cover!($n > 0 && seqs[$n - 1] < target, "target after the last entry");
        }
    };
}
c04_best_offset!(c04_best_offset_n1, 1);
c04_best_offset!(c04_best_offset_n2, 2);
c04_best_offset!(c04_best_offset_n3, 3);
c04_best_offset!(c04_best_offset_n4, 4);
c04_best_offset!(c04t_best_offset_n6, 6);

// next_power_of_two_u64 / grow rule of the message-id index (sizing arithmetic of a rebuildable cache)
#[kani::proof]
fn c04_msg_index_pow2() {
    let v: u64 = kani::any();
    kani::assume(v <= (1u64 << 62));
    let p = next_power_of_two_u64(v);
    assert!(p >= v && p >= 1, "capacity below the requested size");
    assert!(p & (p - 1) == 0, "capacity is not a power of two");
    assert!(v <= 1 || p / 2 < v, "capacity is not the least power of two");
    kani::cover!(v > 1 && p == v, "exact power of two");
}

// vacuity twin (thorough tier)
#[kani::proof]
#[kani::unwind(8)]
fn c04tx_best_offset_twin() {
    let entries = [SeqSeekIndexEntryV1::new(kani::any(), kani::any())];
    let got = best_offset_for_seq(&entries, kani::any());
    kani::cover!(got != 0, "an offset found");
    assert!(false, "vacuity-witness");
}
