// Shared stub set for the Kani harnesses (include!d into each harness module).
// Rule 2 of DESIGN.md: formatting is never the subject; SipHash keys must not be symbolic.

#[allow(dead_code)]
pub fn stub_fmt_format(_args: core::fmt::Arguments<'_>) -> String {
    String::new()
}

#[allow(dead_code)]
pub fn stub_random_state_new() -> std::hash::RandomState {
    // RandomState is two u64 keys; fixed keys instead of getrandom-derived ones.
    unsafe { core::mem::transmute::<(u64, u64), std::hash::RandomState>((0u64, 0u64)) }
}

/// A 1-byte string with a symbolic byte from a small alphabet (no symbolic pointers, no symbolic lengths).
#[allow(dead_code)]
pub fn sym_id1(alphabet: &[u8]) -> String {
    let b: u8 = kani::any();
    let mut ok = false;
    let mut i = 0;
    while i < alphabet.len() {
        if b == alphabet[i] {
            ok = true;
        }
        i += 1;
    }
    kani::assume(ok);
    let mut s = String::with_capacity(1);
    s.push(b as char);
    s
}

// ---------------------------------------------------------------------------------------------------------
// Heap-free values. Measured: CBMC does not constant-fold an enum discriminant read back from a malloc'ed
// object, so dropping ONE heap-held `Event` walks the drop glue of all 45 `EventKind` variants (recursive
// serde_json::Value) and does not finish in 240 s, while dropping the same value from stack/static storage takes
// seconds. Histories handed to the code under test therefore live in harness-owned stack/static storage and are
// aliased by capacity-0 Vecs / Strings: reading, cloning, comparing and iterating behave as usual, dropping is a
// no-op for the buffer (capacity 0 => no dealloc), so the same storage can be handed out repeatedly.
// Restriction (part of every claim that uses them): the code under test must not push to / grow these particular
// Vec/String values in place (a capacity-0 buffer would be re-allocated without copying) -- the functions encoded
// only read, clone or compare their inputs; cloned values are ordinary heap values.
// ---------------------------------------------------------------------------------------------------------

/// A `String` aliasing a static literal (capacity 0: never deallocated, clone() gives an ordinary heap String).
#[allow(dead_code)]
pub fn lit(s: &'static str) -> String {
    unsafe { String::from_raw_parts(s.as_ptr() as *mut u8, s.len(), 0) }
}

/// A `String` aliasing caller-owned bytes (symbolic content allowed; must be ASCII for str validity).
#[allow(dead_code)]
pub fn alias_str(bytes: &'static mut [u8]) -> String {
    unsafe { String::from_raw_parts(bytes.as_mut_ptr(), bytes.len(), 0) }
}

/// A `Vec<T>` aliasing caller-owned storage (capacity 0: the buffer is never deallocated).
#[allow(dead_code)]
pub unsafe fn alias_vec<T>(ptr: *mut T, len: usize) -> Vec<T> {
    Vec::from_raw_parts(ptr, len, 0)
}

// ---------------------------------------------------------------------------------------------------------
// C13: symbolic path strings. L bytes, each from the alphabet {'.', '/', 'a'}: this alphabet generates every
// lexical class the property names (absolute, `..` in any position, `.`, empty components, trailing slashes).
// `path_escapes` is the reference classifier written from the property statement: the string is absolute or one of
// its '/'-separated segments is exactly "..".
// ---------------------------------------------------------------------------------------------------------
#[allow(dead_code)]
pub fn sym_path_bytes<const L: usize>() -> [u8; L] {
    let b: [u8; L] = kani::any();
    let mut i = 0;
    while i < L {
        kani::assume(b[i] == b'.' || b[i] == b'/' || b[i] == b'a');
        i += 1;
    }
    b
}

#[allow(dead_code)]
pub fn path_escapes(b: &[u8]) -> bool {
    if !b.is_empty() && b[0] == b'/' {
        return true;
    }
    // segment scan: seg_len counts bytes of the current segment, dots counts leading '.' bytes if it is all dots
    let mut seg_len = 0usize;
    let mut all_dots = true;
    let mut i = 0;
    let mut esc = false;
    while i <= b.len() {
        if i == b.len() || b[i] == b'/' {
            if seg_len == 2 && all_dots {
                esc = true;
            }
            seg_len = 0;
            all_dots = true;
        } else {
            if b[i] != b'.' {
                all_dots = false;
            }
            seg_len += 1;
        }
        i += 1;
    }
    esc
}
