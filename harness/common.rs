// Shared stub set for the Kani harnesses (include!d into each harness module).
// Rule 2 of DESIGN.md: formatting is never the subject; SipHash keys must not be symbolic.

#[allow(dead_code)]
pub fn stub_fmt_format(_args: core::fmt::Arguments<'_>) -> String {
    String::new()
}

#[allow(dead_code)]
pub fn stub_random_state_new() -> std::hash::RandomState {
    // RandomState is two u64 keys; fixed keys instead of getrandom-derived ones.
    unsafe { core::mem::transmute::<(u64, u64), std::hash::RandomState>((0u64, 0u64)) }
}

/// A 1-byte string with a symbolic byte from a small alphabet (no symbolic pointers, no symbolic lengths).
#[allow(dead_code)]
pub fn sym_id1(alphabet: &[u8]) -> String {
    let b: u8 = kani::any();
    let mut ok = false;
    let mut i = 0;
    while i < alphabet.len() {
        if b == alphabet[i] {
            ok = true;
        }
        i += 1;
    }
    kani::assume(ok);
    let mut s = String::with_capacity(1);
    s.push(b as char);
    s
}

// ---------------------------------------------------------------------------------------------------------
// Heap-free values. Measured: CBMC does not constant-fold an enum discriminant read back from a malloc'ed
// object, so dropping ONE heap-held `Event` walks the drop glue of all 45 `EventKind` variants (recursive
// serde_json::Value) and does not finish in 240 s, while dropping the same value from stack/static storage takes
// seconds. Histories handed to the code under test therefore live in harness-owned stack/static storage and are
// aliased by capacity-0 Vecs / Strings: reading, cloning, comparing and iterating behave as usual, dropping is a
// no-op for the buffer (capacity 0 => no dealloc), so the same storage can be handed out repeatedly.
// Restriction (part of every claim that uses them): the code under test must not push to / grow these particular
// Vec/String values in place (a capacity-0 buffer would be re-allocated without copying) -- the functions encoded
// only read, clone or compare their inputs; cloned values are ordinary heap values.
// ---------------------------------------------------------------------------------------------------------

/// A `String` aliasing a static literal (capacity 0: never deallocated, clone() gives an ordinary heap String).
#[allow(dead_code)]
pub fn lit(s: &'static str) -> String {
    unsafe { String::from_raw_parts(s.as_ptr() as *mut u8, s.len(), 0) }
}

/// A `String` aliasing caller-owned bytes (symbolic content allowed; must be ASCII for str validity).
#[allow(dead_code)]
pub fn alias_str(bytes: &'static mut [u8]) -> String {
    unsafe { String::from_raw_parts(bytes.as_mut_ptr(), bytes.len(), 0) }
}

/// A `Vec<T>` aliasing caller-owned storage (capacity 0: the buffer is never deallocated).
#[allow(dead_code)]
pub unsafe fn alias_vec<T>(ptr: *mut T, len: usize) -> Vec<T> {
    Vec::from_raw_parts(ptr, len, 0)
}

// ---------------------------------------------------------------------------------------------------------
// C13: symbolic path strings. L bytes, each from the alphabet {'.', '/', 'a'}: this alphabet generates every
// lexical class the property names (absolute, `..` in any position, `.`, empty components, trailing slashes).
// `path_escapes` is the reference classifier written from the property statement: the string is absolute or one of
// its '/'-separated segments is exactly "..".
// ---------------------------------------------------------------------------------------------------------
#[allow(dead_code)]
pub fn sym_path_bytes<const L: usize>() -> [u8; L] {
    let b: [u8; L] = kani::any();
    let mut i = 0;
    while i < L {
        kani::assume(b[i] == b'.' || b[i] == b'/' || b[i] == b'a');
        i += 1;
    }
    b
}

#[allow(dead_code)]
pub fn path_escapes(b: &[u8]) -> bool {
    if !b.is_empty() && b[0] == b'/' {
        return true;
    }
    // segment scan: seg_len counts bytes of the current segment, dots counts leading '.' bytes if it is all dots
    let mut seg_len = 0usize;
    let mut all_dots = true;
    let mut i = 0;
    let mut esc = false;
    while i <= b.len() {
        if i == b.len() || b[i] == b'/' {
            if seg_len == 2 && all_dots {
                esc = true;
            }
            seg_len = 0;
            all_dots = true;
        } else {
            if b[i] != b'.' {
                all_dots = false;
            }
            seg_len += 1;
        }
        i += 1;
    }
    esc
}

// ---- reference UTF-8 validator (C15, C17) ---------------------------------------------------------------------
// core::str::from_utf8 (run_utf8_validation: word-at-a-time fast path, three nested loops) does not finish once the
// buffer length is symbolic. It is replaced (#[kani::stub]) by a byte-wise reference validator with the SAME contract
// (valid_up_to, error_len per the "maximal subpart" rule). Two harness families justify the stub in every property that
// uses it: *_utf8_ref_layout (the Utf8Error value built by transmute reports the numbers put in) and
// *_utf8_ref_equiv_len{2,3,4} (reference == std on EVERY byte string of that length, i.e. every complete and truncated
// form of every sequence).
#[allow(dead_code)]
#[repr(C)]
struct Utf8ErrorParts {
    valid_up_to: usize,
    error_len: Option<u8>,
}
#[allow(dead_code)]
fn mk_utf8_error(valid_up_to: usize, error_len: Option<u8>) -> core::str::Utf8Error {
    unsafe { core::mem::transmute::<Utf8ErrorParts, core::str::Utf8Error>(Utf8ErrorParts { valid_up_to, error_len }) }
}
#[allow(dead_code)]
fn is_cont(b: u8) -> bool {
    b >= 0x80 && b <= 0xBF
}
// returns Ok(()) or Err((valid_up_to, error_len))
#[allow(dead_code)]
fn ref_validate(v: &[u8]) -> Result<(), (usize, Option<u8>)> {
    let n = v.len();
    let mut i = 0usize;
    while i < n {
        let b0 = v[i];
        if b0 < 0x80 {
            i += 1;
            continue;
        }
        let (need, lo, hi): (usize, u8, u8) = if b0 >= 0xC2 && b0 <= 0xDF {
            (1, 0x80, 0xBF)
        } else if b0 == 0xE0 {
            (2, 0xA0, 0xBF)
        } else if (b0 >= 0xE1 && b0 <= 0xEC) || b0 == 0xEE || b0 == 0xEF {
            (2, 0x80, 0xBF)
        } else if b0 == 0xED {
            (2, 0x80, 0x9F)
        } else if b0 == 0xF0 {
            (3, 0x90, 0xBF)
        } else if b0 >= 0xF1 && b0 <= 0xF3 {
            (3, 0x80, 0xBF)
        } else if b0 == 0xF4 {
            (3, 0x80, 0x8F)
        } else {
            return Err((i, Some(1)));
        };
        // second byte
        if i + 1 >= n {
            return Err((i, None));
        }
        let b1 = v[i + 1];
        if b1 < lo || b1 > hi {
            return Err((i, Some(1)));
        }
        if need >= 2 {
            if i + 2 >= n {
                return Err((i, None));
            }
            if !is_cont(v[i + 2]) {
                return Err((i, Some(2)));
            }
        }
        if need >= 3 {
            if i + 3 >= n {
                return Err((i, None));
            }
            if !is_cont(v[i + 3]) {
                return Err((i, Some(3)));
            }
        }
        i += need + 1;
    }
    Ok(())
}
#[allow(dead_code)]
fn stub_from_utf8(v: &[u8]) -> Result<&str, core::str::Utf8Error> {
    match ref_validate(v) {
        Ok(()) => Ok(unsafe { core::str::from_utf8_unchecked(v) }),
        Err((up_to, len)) => Err(mk_utf8_error(up_to, len)),
    }
}

#[allow(dead_code)]
fn utf8_ref_layout_body() {
    let up_to: usize = kani::any();
    let len: Option<u8> = if kani::any() { Some(kani::any()) } else { None };
    let e = mk_utf8_error(up_to, len);
    assert!(e.valid_up_to() == up_to, "Utf8Error layout assumption broken (valid_up_to)");
    match (len, e.error_len()) {
        (None, None) => {}
        (Some(a), Some(b)) => assert!(a as usize == b, "Utf8Error layout assumption broken (error_len)"),
        _ => assert!(false, "Utf8Error layout assumption broken (error_len presence)"),
    }
    kani::cover!(len.is_none(), "incomplete-sequence error");
}
#[allow(unused_macros)]
macro_rules! utf8_ref_equiv {
    ($name:ident, $n:expr) => {
        #[kani::proof]
        #[kani::unwind(8)]
        fn $name() {
            let bytes: [u8; $n] = kani::any();
            let std_r = std::str::from_utf8(&bytes);
            let ref_r = ref_validate(&bytes);
            match (std_r, ref_r) {
                (Ok(_), Ok(())) => {}
                (Err(e), Err((up_to, len))) => {
                    assert!(e.valid_up_to() == up_to, "reference validator disagrees with std on valid_up_to");
                    assert!(e.error_len().map(|l| l as u8) == len, "reference validator disagrees with std on error_len");
                }
                _ => assert!(false, "reference validator disagrees with std on validity"),
            }
            kani::cover!(std_r.is_ok() && bytes[0] >= 0x80, "a multi-byte sequence is valid");
            kani::cover!(std_r.is_err(), "invalid input");
        }
    };
}
