// C20 — FrameStore: seq-indexed lookup returns that frame or nothing; bounded window.
// Mounted into crates/rip-tui/src/frame_store.rs as `mod verif_kani` under cfg(kani).
use super::*;
use rip_kernel::{Event, EventKind};

fn ev(seq: u64) -> Event {
    Event {
        id: String::new(),
        session_id: String::new(),
        timestamp_ms: 0,
        seq,
        kind: EventKind::SessionEnded {
            reason: String::new(),
        },
    }
}

// VecDeque::pop_front replaced by remove-front-and-forget: dropping an `Event` drags the drop glue of all
// 45 `EventKind` variants (incl. recursive serde_json::Value) into the formula (measured: > 600 s). FrameStore
// discards the popped frame, so only "the front element is removed" matters.
fn pop_front_forget<T, A: std::alloc::Allocator>(this: &mut VecDeque<T, A>) -> Option<T> {
    if let Some(e) = this.remove(0) {
        core::mem::forget(e);
    }
    None
}

macro_rules! frame_store_shape {
    ($name:ident, $cap:expr, $pushes:expr) => {
        #[kani::proof]
        #[kani::unwind(6)]
        #[kani::stub(std::collections::VecDeque::pop_front, pop_front_forget)]
        fn $name() {
            let mut store = FrameStore::new($cap);
            let mut seqs = [0u64; $pushes];
            let mut i = 0;
            while i < $pushes {
                let s: u64 = kani::any();
                seqs[i] = s;
                store.push(ev(s));
                // bounded memory: never more than max(capacity,1) frames
                assert!(store.len() <= core::cmp::max($cap, 1));
                i += 1;
            }
            let q: u64 = kani::any();
            let got = store.get_by_seq(q);
            kani::cover!(got.is_some(), "lookup hit");
            kani::cover!(got.is_none(), "lookup miss");
            if let Some(e) = got {
                // the frame looked up by seq is that frame, never a different one
                assert!(e.seq == q, "get_by_seq returned a frame with another seq");
            }
            // first/last are the window ends
            if $pushes > 0 {
                assert!(store.last_seq() == Some(seqs[$pushes - 1]));
            }
            core::mem::forget(store);
        }
    };
}

frame_store_shape!(c20_fs_cap1_push1, 1, 1);
frame_store_shape!(c20_fs_cap1_push2, 1, 2);
frame_store_shape!(c20_fs_cap2_push2, 2, 2);
frame_store_shape!(c20_fs_cap2_push3, 2, 3);
frame_store_shape!(c20_fs_cap3_push2, 3, 2);
frame_store_shape!(c20_fs_cap3_push4, 3, 4);
frame_store_shape!(c20_fs_cap0_push2, 0, 2);

#[kani::proof]
fn c00_setup_probe() {
    let x: u8 = kani::any();
    assert!(x as u16 <= 255);
}

// vacuity twin (thorough tier): same path as the shapes above with a deliberately false final assertion that MUST fail
#[kani::proof]
#[kani::unwind(6)]
#[kani::stub(std::collections::VecDeque::pop_front, pop_front_forget)]
fn c20tx_fs_twin() {
    let mut store = FrameStore::new(1);
    store.push(ev(kani::any()));
    store.push(ev(kani::any()));
    let got = store.get_by_seq(kani::any());
    kani::cover!(got.is_some(), "lookup hit");
    core::mem::forget(store);
    assert!(false, "vacuity-witness");
}
