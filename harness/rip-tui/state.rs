// Kani harnesses mounted into crates/rip-tui/src/state.rs (cfg(kani) only).
#![allow(unused_imports, dead_code)]
use super::*;

// C20: bounded previews / output text cut on char boundaries. For ANY existing text (2 ASCII bytes), ANY valid UTF-8
// chunk of 3 bytes (1-, 2- and 3-byte characters included) and ANY cap 0..=6: no panic (a cut inside a multi-byte
// character would panic), and the stored text never exceeds the cap.
#[kani::proof]
#[kani::unwind(8)]
fn c20_push_preview_bounded() {
    let a: u8 = kani::any();
    let b: u8 = kani::any();
    kani::assume(a < 128 && b < 128);
    let mut target = String::with_capacity(16);
    target.push(a as char);
    target.push(b as char);
    let bytes: [u8; 3] = kani::any();
    let chunk = match core::str::from_utf8(&bytes) {
        Ok(s) => s,
        Err(_) => {
            kani::assume(false);
            unreachable!()
        }
    };
    let max_len: usize = kani::any();
    kani::assume(max_len <= 6);
    let before = target.len();
    push_preview(&mut target, chunk, max_len);
    assert!(target.len() <= core::cmp::max(max_len, 0) || target.len() <= max_len, "preview exceeds its cap");
    assert!(target.len() <= before + 3);
    kani::cover!(bytes[0] >= 0xE0 && max_len == 3, "3-byte character at the truncation boundary");
    kani::cover!(target.len() == 5, "nothing truncated");
    core::mem::forget(target);
}

fn pop_front_forget<T, A: std::alloc::Allocator>(this: &mut std::collections::VecDeque<T, A>) -> Option<T> {
    if let Some(e) = this.remove(0) {
        core::mem::forget(e);
    }
    None
}

fn delta_event(seq: u64, ts: u64, bytes: &[u8; 3]) -> Event {
    let mut s = String::with_capacity(3);
    s.push_str(unsafe { core::str::from_utf8_unchecked(bytes) });
    Event { id: String::new(), session_id: String::new(), timestamp_ms: ts, seq, kind: EventKind::OutputTextDelta { delta: s } }
}

// C20: the fold itself. Two output-text frames with ARBITRARY seqs and timestamps (gaps, repeats, decreasing) and ANY valid
// 3-byte UTF-8 deltas are folded into a state with a 1-frame window and a 4-byte output cap: no panic (a cut inside a
// multi-byte character would panic), output text within its cap, window within its capacity, the selected frame is the
// frame with the selected seq or nothing, derived timings never underflow.
#[kani::proof]
#[kani::unwind(8)]
#[kani::stub(std::collections::VecDeque::pop_front, pop_front_forget)]
fn c20_update_output_deltas() {
    let b0: [u8; 3] = kani::any();
    let b1: [u8; 3] = kani::any();
    kani::assume(core::str::from_utf8(&b0).is_ok() && core::str::from_utf8(&b1).is_ok());
    let mut st = TuiState::new(1, 4);
    st.update(delta_event(kani::any(), kani::any(), &b0));
    assert!(st.output_text.len() <= 4, "output text exceeds its cap");
    st.update(delta_event(kani::any(), kani::any(), &b1));
    assert!(st.output_text.len() <= 4, "output text exceeds its cap");
    assert!(st.frames.len() <= 1, "frame window exceeds its capacity");
    if let Some(sel) = st.selected_seq {
        if let Some(e) = st.selected_event() {
            assert!(e.seq == sel, "selected frame is a different frame than the selected seq");
        }
    }
    let _ = st.ttft_ms();
    let _ = st.e2e_ms();
    kani::cover!(st.output_truncated && b1[0] >= 0xE0, "truncation with a 3-byte character in the tail");
    kani::cover!(st.selected_event().is_some(), "selected frame found");
    core::mem::forget(st);
}

// C20: frames for UNKNOWN tool / task ids and terminal frames without a start are consumed without a crash, from a fresh
// state (shape = frame type; seq, timestamps, exit codes and durations symbolic; 1-frame window, so the second frame
// also exercises eviction).
macro_rules! c20_update_orphan {
    ($name:ident, $kind:expr) => {
        #[kani::proof]
        #[kani::unwind(8)]
        #[kani::stub(std::collections::VecDeque::pop_front, pop_front_forget)]
        fn $name() {
            let mut st = TuiState::new(1, 8);
            let k1: EventKind = $kind;
            let k2: EventKind = $kind;
            st.update(Event { id: String::new(), session_id: String::new(), timestamp_ms: kani::any(), seq: kani::any(), kind: k1 });
            st.update(Event { id: String::new(), session_id: String::new(), timestamp_ms: kani::any(), seq: kani::any(), kind: k2 });
            assert!(st.frames.len() <= 1, "frame window exceeds its capacity");
            assert!(st.output_text.len() <= 8, "output text exceeds its cap");
            if let Some(sel) = st.selected_seq {
                if let Some(e) = st.selected_event() {
                    assert!(e.seq == sel, "selected frame is a different frame than the selected seq");
                }
            }
            let _ = st.e2e_ms();
            kani::cover!(true, "decided");
            core::mem::forget(st);
        }
    };
}
c20_update_orphan!(c20_update_orphan_tool_ended, EventKind::ToolEnded { tool_id: String::from("t"), exit_code: kani::any(), duration_ms: kani::any(), artifacts: None });
c20_update_orphan!(c20_update_orphan_tool_failed, EventKind::ToolFailed { tool_id: String::from("t"), error: String::from("e") });
c20_update_orphan!(c20_update_orphan_tool_stdout, EventKind::ToolStdout { tool_id: String::from("t"), chunk: String::from("xy") });
// (does not finish in 800 s: BTreeMap<String, TaskSummary> entry with merged Option payloads) c20_update_orphan!(c20_update_orphan_task_status, EventKind::ToolTaskStatus { task_id: String::from("k"), status: rip_kernel::ToolTaskStatus::Exited, exit_code: if kani::any() { Some(kani::any()) } else { None }, started_at_ms: if kani::any() { Some(kani::any()) } else { None }, ended_at_ms: if kani::any() { Some(kani::any()) } else { None }, artifacts: None, error: None });
c20_update_orphan!(c20_update_orphan_session_ended, EventKind::SessionEnded { reason: String::new() });
