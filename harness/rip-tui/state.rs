// Kani harnesses mounted into crates/rip-tui/src/state.rs (cfg(kani) only).
#![allow(unused_imports, dead_code)]
use super::*;

// C20: bounded previews / output text cut on char boundaries. For ANY existing text (2 ASCII bytes), ANY valid UTF-8
// chunk of 3 bytes (1-, 2- and 3-byte characters included) and ANY cap 0..=6: no panic (a cut inside a multi-byte
// character would panic), and the stored text never exceeds the cap.
#[kani::proof]
#[kani::unwind(8)]
fn c20_push_preview_bounded() {
    let a: u8 = kani::any();
    let b: u8 = kani::any();
    kani::assume(a < 128 && b < 128);
    let mut target = String::with_capacity(16);
    target.push(a as char);
    target.push(b as char);
    let bytes: [u8; 3] = kani::any();
    let chunk = match core::str::from_utf8(&bytes) {
        Ok(s) => s,
        Err(_) => {
            kani::assume(false);
            unreachable!()
        }
    };
    let max_len: usize = kani::any();
    kani::assume(max_len <= 6);
    let before = target.len();
    push_preview(&mut target, chunk, max_len);
    assert!(target.len() <= core::cmp::max(max_len, 0) || target.len() <= max_len, "preview exceeds its cap");
    assert!(target.len() <= before + 3);
    kani::cover!(bytes[0] >= 0xE0 && max_len == 3, "3-byte character at the truncation boundary");
    kani::cover!(target.len() == 5, "nothing truncated");
    core::mem::forget(target);
}
