// Kani harnesses mounted into crates/rip-tui/src/state.rs (cfg(kani) only).
#![allow(unused_imports, dead_code)]
use super::*;
