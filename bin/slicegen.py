"""Shared table of the source slicers (used by vcheck, vsetup and vprobe): (property, generator, arguments).
{S} = /repo/crates/ripd/src, {R} = /repo, {H} = /verif/harness/gen."""
import os, subprocess

VERIF = os.path.dirname(os.path.dirname(os.path.abspath(__file__)))
REPO = os.environ.get("VERIF_REPO", "/repo")
GENERATORS = [
    ("C15", "slice_push_bytes.py", ["{S}/session.rs", "{H}/push_bytes_slice.rs"]),
    ("C17", "slice_task_logs.py", ["{S}/tasks/logs.rs", "{H}/log_append_slice.rs", "{H}/read_artifact_range_slice.rs"]),
    ("C06", "slice_stream_join.py", ["{S}/session.rs", "{S}/tasks/mod.rs", "{S}/server.rs", "{H}/stream_join_slice.rs"]),
    ("C11", "slice_workspace_lock.py", ["{S}/session.rs", "{S}/tasks/mod.rs", "{H}/workspace_lock_slice.rs"]),
    ("C17", "slice_shell_capture.py", ["{R}/crates/rip-tools/src/builtins/shell.rs", "{H}/shell_capture_slice.rs"]),
    ("C07", "slice_run_tail.py", ["{S}/session.rs", "{H}/run_tail_slice.rs", "{H}/run_prompt_arm_slice.rs", "{S}/server.rs", "{H}/post_message_slice.rs"]),
    ("C12", "slice_apply_patch.py", ["{R}/crates/rip-workspace/src/lib.rs", "{R}/crates/rip-workspace/src/patch.rs", "{H}/apply_patch_slice.rs", "{H}/hunk_loop_slice.rs"]),
    ("C16", "slice_agent_loop.py", ["{S}/session.rs", "{H}/agent_loop_slice.rs", "{H}/request_gate_slice.rs"]),
    ("C19", "slice_agent_loop.py", ["{S}/session.rs", "{H}/agent_loop_slice.rs", "{H}/request_gate_slice.rs"]),
    ("C19", "slice_doctor.py", ["{S}/server.rs", "{H}/doctor_summary_slice.rs"]),
    ("C14", "slice_checkpoint_files.py", ["{R}/crates/rip-tools/src/runtime.rs", "{H}/checkpoint_files_slice.rs"]),
    ("C08", "slice_select_recent.py", ["{S}/context_compiler.rs", "{H}/select_recent_slice.rs"]),
]


def run_generators(log=print, only=None):
    """regenerate the slices (all, or those of one property) from /repo's CURRENT source; returns the set of properties whose
    generator failed"""
    failed = set()
    sub = {"S": os.path.join(REPO, "crates/ripd/src"), "R": REPO, "H": os.path.join(VERIF, "harness", "gen")}
    for prop, gen, args in GENERATORS:
        if only and prop != only:
            continue
        # outputs are written to private temporary files and moved into place atomically, and only when the content changed:
        # two checks that share a generator (C16 / C19) may run at the same time without ever seeing a half-written slice
        real = [a.format(**sub) for a in args]
        outs = {a: a + ".tmp%d" % os.getpid() for a in real if a.startswith(sub["H"] + os.sep)}
        r = subprocess.run([os.path.join(VERIF, "gen", gen)] + [outs.get(a, a) for a in real], capture_output=True, text=True)
        if r.returncode != 0:
            log("slice generator %s failed: %s" % (gen, r.stderr.strip()))
            failed.add(prop)
            for t in outs.values():
                if os.path.exists(t):
                    os.remove(t)
            continue
        for final, tmp in outs.items():
            if not os.path.exists(tmp):
                continue
            try:
                same = os.path.exists(final) and open(final).read() == open(tmp).read()
            except OSError:
                same = False
            if same:
                os.remove(tmp)
            else:
                os.replace(tmp, final)
    return failed


if __name__ == "__main__":
    import sys
    sys.exit(1 if run_generators() else 0)
