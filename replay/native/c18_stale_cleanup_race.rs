// Native (probabilistic) demonstration of known finding F-C18-stale-cleanup-toctou (property C18).
// Copy into crates/ripd/tests/ and run `cargo test --release --test c18_stale_cleanup_race -- --nocapture`.
// Two contenders recover the same dead authority concurrently, exactly as the server/client recovery loops do:
// try_cleanup_stale_authority_files(dead pid) then AuthorityLockGuard::try_acquire. The solver's schedule: contender A
// has re-read the lock record (dead pid) and is about to rename lock.json; contender B cleans up, acquires (lock.json now
// carries a LIVE pid); A's rename then removes B's lock. Observable: a contender that holds the guard finds lock.json
// missing or owned by somebody else although it never released it.
use std::fs;
use std::sync::atomic::{AtomicBool, AtomicUsize, Ordering};
use std::sync::{Arc, Barrier};

use ripd::{authority_lock_path, try_cleanup_stale_authority_files, AuthorityLockGuard};

const DEAD_PID: u32 = 3_999_999; // above the default pid_max: never alive

#[test]
fn live_lock_survives_concurrent_stale_cleanup() {
    let dir = tempfile::tempdir().expect("tmp");
    let data_dir = dir.path().join("data");
    let ws = dir.path().join("ws");
    fs::create_dir_all(data_dir.join("authority")).unwrap();
    fs::create_dir_all(&ws).unwrap();
    let lock_path = authority_lock_path(&data_dir);
    let violated = Arc::new(AtomicBool::new(false));
    let rounds_hit = Arc::new(AtomicUsize::new(0));

    for round in 0..20_000usize {
        if violated.load(Ordering::SeqCst) {
            break;
        }
        let _ = fs::remove_file(&lock_path);
        fs::write(&lock_path, format!("{{\"pid\":{DEAD_PID},\"started_at_ms\":1,\"workspace_root\":\"x\"}}\n")).unwrap();
        let barrier = Arc::new(Barrier::new(2));
        let mut handles = Vec::new();
        for _ in 0..2 {
            let data_dir = data_dir.clone();
            let ws = ws.clone();
            let lock_path = lock_path.clone();
            let barrier = barrier.clone();
            let violated = violated.clone();
            let rounds_hit = rounds_hit.clone();
            handles.push(std::thread::spawn(move || {
                barrier.wait();
                let _ = try_cleanup_stale_authority_files(&data_dir, DEAD_PID, 1);
                if let Ok(guard) = AuthorityLockGuard::try_acquire(&data_dir, &ws) {
                    // we are the authority now; give the other contender's pending rename a moment to land
                    for _ in 0..200 {
                        std::hint::spin_loop();
                    }
                    let still_ours = fs::read_to_string(&lock_path)
                        .map(|s| s.contains(&format!("\"pid\":{}", std::process::id())))
                        .unwrap_or(false);
                    if !still_ours {
                        violated.store(true, Ordering::SeqCst);
                        rounds_hit.store(round, Ordering::SeqCst);
                    }
                    drop(guard);
                }
            }));
        }
        for h in handles {
            h.join().unwrap();
        }
    }
    assert!(
        !violated.load(Ordering::SeqCst),
        "round {}: a live authority's lock.json was removed by a concurrent stale cleanup",
        rounds_hit.load(Ordering::SeqCst)
    );
}
