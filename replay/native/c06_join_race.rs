// Native reproduction of F-C06-publish-before-record (found by `c06_session_join_2frames` / `c06_task_join_2frames`).
// In-crate test: insert into `mod tests` of crates/ripd/src/session.rs (uses the real `emit_event`, a real broadcast
// channel, the real history buffer and a real EventLog). One producer emits ONE frame; a subscriber thread does what
// the SSE handler `stream_events` does -- subscribe, snapshot the history, drop live frames with seq <= last history
// seq -- at a racing moment. Before the fix, a subscriber that subscribes after `sender.send` and snapshots before
// `guard.push` receives the frame neither live nor from history.
    #[tokio::test(flavor = "multi_thread", worker_threads = 4)]
    async fn verif_c06_subscriber_join_never_loses_a_frame() {
        use std::sync::atomic::{AtomicBool, Ordering};
        let dir = tempdir().expect("tmp");
        let log = Arc::new(EventLog::new(dir.path().join("events.jsonl")).expect("log"));
        let rounds: usize = std::env::var("VERIF_C06_ROUNDS").ok().and_then(|v| v.parse().ok()).unwrap_or(300_000);
        for round in 0..rounds {
            let (sender, _keep) = broadcast::channel::<Event>(16);
            let buffer: Arc<Mutex<Vec<Event>>> = Arc::new(Mutex::new(Vec::new()));
            let go = Arc::new(AtomicBool::new(false));
            let (s2, b2, g2) = (sender.clone(), buffer.clone(), go.clone());
            let spin = round % 64;
            let sub = tokio::spawn(async move {
                while !g2.load(Ordering::Acquire) {
                    std::hint::spin_loop();
                }
                for _ in 0..spin {
                    std::hint::spin_loop();
                }
                // the handler's steps, in its order
                let receiver = s2.subscribe();
                let past = b2.lock().await.clone();
                (receiver, past)
            });
            let mut event = make_event(EventKind::OutputTextDelta { delta: "x".to_string() });
            event.seq = 0;
            go.store(true, Ordering::Release);
            emit_event(event, &sender, &buffer, &log).await;
            let (mut receiver, past) = sub.await.expect("join");
            let last_seq = past.last().map(|event| event.seq);
            let mut delivered: Vec<u64> = past.iter().map(|e| e.seq).collect();
            while let Ok(event) = receiver.try_recv() {
                if last_seq.map(|last| event.seq <= last).unwrap_or(false) {
                    continue;
                }
                delivered.push(event.seq);
            }
            assert_eq!(delivered, vec![0], "round {round}: subscriber received {delivered:?} instead of the one frame of the stream");
        }
    }
