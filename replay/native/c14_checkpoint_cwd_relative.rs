// Native demonstration of finding F-C14-cwd-relative (property C14). Copy into crates/rip-workspace/tests/ and run
// `cargo test --test c14_checkpoint_cwd_relative` (single test: it changes the process working directory).
// Solver counterexample: relative request "a", working directory != workspace root, <root>/a exists.
// Before the fix create_checkpoint tested/read the cwd-relative path but recorded it root-relative: the checkpoint
// says "did not exist", and the rewind DELETES the user's file instead of restoring it.
use std::fs;
use std::path::PathBuf;

use rip_workspace::Workspace;

#[test]
fn rewind_restores_relative_path_regardless_of_working_directory() {
    let dir = tempfile::tempdir().expect("tmp");
    let root = dir.path().join("root");
    let elsewhere = dir.path().join("elsewhere");
    fs::create_dir_all(&root).unwrap();
    fs::create_dir_all(&elsewhere).unwrap();
    fs::write(root.join("a.txt"), b"one").unwrap();
    let ws = Workspace::new(&root).expect("workspace");

    std::env::set_current_dir(&elsewhere).unwrap();
    let cp = ws.create_checkpoint("s1", "label", &[PathBuf::from("a.txt")]).expect("checkpoint");
    assert!(cp.files[0].exists, "checkpoint says the workspace file did not exist");

    fs::write(root.join("a.txt"), b"two").unwrap();
    ws.rewind_to_checkpoint("s1", &cp.id).expect("rewind");
    assert_eq!(fs::read(root.join("a.txt")).expect("file still there after rewind"), b"one");
}
