// Native demonstration of finding F-C04-tail-loop (property C04: "each such call also terminates, however long
// the thread is"). Copy into crates/ripd/tests/ of a tree and run `cargo test --test c04_tail_loop_hang`.
//
// A thread with more than 10 000 frames and no provider-cursor frame: every bounded tail window is "not complete"
// and nothing is found, so before the fix the window-doubling loop of provider_cursor_status_v1 (and its three
// siblings) kept re-scanning the 8 MiB window forever. This is the solver's counterexample (the cache answering
// complete=false at every window) realised with a real store on a real directory.
use std::sync::{mpsc, Arc};
use std::time::Duration;

use rip_log::EventLog;
use ripd::{ContinuityStore, ProviderCursorStatusV1Request};

#[test]
fn provider_cursor_status_terminates_on_thread_longer_than_every_tail_window() {
    let dir = tempfile::tempdir().expect("tmp");
    let data_dir = dir.path().join("data");
    let workspace = dir.path().join("ws");
    std::fs::create_dir_all(&workspace).unwrap();
    let log = Arc::new(EventLog::new(data_dir.join("events.jsonl")).unwrap());
    let store = Arc::new(ContinuityStore::new(data_dir.clone(), workspace, log).unwrap());
    let thread = store.ensure_default().unwrap();
    for i in 0..10_050u32 {
        store
            .append_message(&thread, "user".into(), "test".into(), format!("m{i}"))
            .unwrap();
    }
    let (tx, rx) = mpsc::channel();
    let s2 = store.clone();
    let t2 = thread.clone();
    std::thread::spawn(move || {
        let r = s2.provider_cursor_status_v1(&t2, ProviderCursorStatusV1Request {});
        let _ = tx.send(r.map(|resp| resp.cursors.len()));
    });
    match rx.recv_timeout(Duration::from_secs(60)) {
        Ok(r) => assert_eq!(r.expect("status"), 0),
        Err(_) => panic!("provider_cursor_status_v1 did not return within 60 s on a 10 050-frame thread (tail loop never exits)"),
    }
}
