// Native reproduction of F-C17-page-split (found by `c17_page_n5_p4`).
// In-crate test for crates/ripd/src/tasks/tests.rs (append to that file; `use super::*` etc. are already there).
// Stored output "aaaé" (5 bytes, valid UTF-8), page limit 4: the first page ends inside `é`.
// Before the fix each half of the character is decoded lossily (U+FFFD twice); following `bytes` page by page does not
// reproduce the stored text.
#[test]
fn verif_c17_pages_reproduce_multibyte_text() {
    let dir = tempdir().expect("tmp");
    let config = TaskEngineConfig {
        workspace_root: dir.path().to_path_buf(),
        artifact_max_bytes: 128,
        max_bytes: 64,
    };
    std::fs::create_dir_all(config.artifacts_blobs_dir()).expect("mkdir");
    // second text: the solver's own assignment for c17_page_n5_p4 (bytes DC 98 58 CD 80, offset 0)
    for (n, text) in ["aaa\u{e9}", "\u{718}X\u{340}"].iter().enumerate() {
        let id = ["b".repeat(64), "c".repeat(64)][n].clone();
        std::fs::write(config.artifacts_blobs_dir().join(&id), text).expect("write");
        let mut got = String::new();
        let mut offset = 0u64;
        for _ in 0..8 {
            let (content, bytes, total, truncated) = read_artifact_range(&config, &id, offset, 4).expect("range");
            assert!(bytes > 0 || !truncated, "a page that makes no progress");
            got.push_str(&content);
            offset += bytes as u64;
            if !truncated {
                assert_eq!(offset, total);
                break;
            }
        }
        assert_eq!(&got, text, "reading the stored output page by page does not reproduce it");
    }
}
