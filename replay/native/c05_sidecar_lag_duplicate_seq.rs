// Native demonstration of known finding F-C05-sidecar-lag (property C05, also breaks C01).
// Copy into crates/ripd/tests/ and run `cargo test --test c05_sidecar_lag_duplicate_seq`.
// Solver counterexample: truth log holds frame T of a thread, the per-thread sidecar ends at T-1 (the state left by a
// crash -- or a failed best-effort sidecar write -- between the truth line and the sidecar line). After a restart
// the next append re-uses seq T: the truth log then holds a duplicate and every validated replay fails.
use std::fs;
use std::sync::Arc;

use rip_log::EventLog;
use ripd::ContinuityStore;

#[test]
fn append_after_restart_with_lagging_sidecar_keeps_the_log_replayable() {
    let dir = tempfile::tempdir().expect("tmp");
    let data_dir = dir.path().join("data");
    let workspace = dir.path().join("ws");
    fs::create_dir_all(&workspace).unwrap();
    let log_path = data_dir.join("events.jsonl");

    let thread = {
        let log = Arc::new(EventLog::new(&log_path).unwrap());
        let store = ContinuityStore::new(data_dir.clone(), workspace.clone(), log).unwrap();
        let thread = store.ensure_default().unwrap();
        store.append_message(&thread, "user".into(), "test".into(), "one".into()).unwrap();
        store.append_message(&thread, "user".into(), "test".into(), "two".into()).unwrap();
        thread
    };

    // crash point: the truth line of the last frame was written, its sidecar line was not
    let sidecar = data_dir.join("continuity_streams").join(format!("{thread}.jsonl"));
    let text = fs::read_to_string(&sidecar).unwrap();
    let mut lines: Vec<&str> = text.lines().collect();
    lines.pop();
    fs::write(&sidecar, format!("{}\n", lines.join("\n"))).unwrap();

    // restart
    let log = Arc::new(EventLog::new(&log_path).unwrap());
    let store = ContinuityStore::new(data_dir.clone(), workspace, log.clone()).unwrap();
    store.append_message(&thread, "user".into(), "test".into(), "three".into()).unwrap();

    log.replay_validated().expect("store must still replay gap-free after restart");
}
