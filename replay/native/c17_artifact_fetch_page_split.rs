// Native reproduction of F-C17-page-split for the artifact_fetch tool (rip-tools).
// In-crate test: insert into `mod tests` of crates/rip-tools/src/builtins/artifact_fetch.rs.
    #[test]
    fn verif_c17_artifact_fetch_pages_reproduce_multibyte_text() {
        let dir = tempdir().expect("tmp");
        let config = config_for(dir.path());
        let blobs = artifacts_blobs_dir(&config);
        std::fs::create_dir_all(&blobs).expect("blobs");
        let id = "c".repeat(64);
        let text = "aaa\u{e9}";
        std::fs::write(blobs.join(&id), text).expect("write");
        let mut got = String::new();
        let mut offset = 0u64;
        for _ in 0..8 {
            let output = run_artifact_fetch(
                ToolInvocation {
                    name: "artifact_fetch".to_string(),
                    args: serde_json::json!({"id": id, "offset_bytes": offset, "max_bytes": 4}),
                    timeout_ms: None,
                },
                &config,
            );
            assert_eq!(output.exit_code, 0);
            got.push_str(&output.stdout.join(""));
            let a = output.artifacts.expect("artifacts");
            let bytes = a.get("bytes").and_then(|v| v.as_u64()).expect("bytes");
            let truncated = a.get("truncated").and_then(|v| v.as_bool()).expect("truncated");
            assert!(bytes > 0 || !truncated, "a page that makes no progress");
            offset += bytes;
            if !truncated {
                break;
            }
        }
        assert_eq!(got, text, "fetching the artifact page by page does not reproduce it");
    }
