// Native demonstration of finding F-C15-utf8-chunking (property C15). In-crate snippet: APPEND this file to
// crates/ripd/src/session.rs and run `cargo test -p ripd --lib verif_demo_c15`.
// Solver counterexample (4 bytes, split after the first): 'x' E1 80 'y' -- a truncated 3-byte sequence (maximal invalid
// subpart of 2 bytes) that FOLLOWS valid text when delivered whole, but STARTS the buffer when the network splits the
// stream in front of it. Before the fix the first case produced one U+FFFD, the second one two.
#[cfg(test)]
mod verif_demo_c15 {
    use super::*;
    use tempfile::tempdir;

    async fn raw_payloads(chunks: &[&[u8]]) -> Vec<String> {
        let dir = tempdir().expect("tmp");
        let log = EventLog::new(dir.path().join("events.jsonl")).expect("log");
        let buffer = Arc::new(Mutex::new(Vec::new()));
        let (sender, _) = broadcast::channel(64);
        let mut seq = 0;
        {
            let sink = EventSink { sender: &sender, buffer: &buffer, event_log: &log };
            let mut pipe = OpenResponsesSsePipe::new("s1", &mut seq, sink, None, ValidationOptions::strict());
            let mut utf8_buf = Vec::new();
            for chunk in chunks {
                let _ = pipe.push_bytes(&mut utf8_buf, chunk).await;
            }
        }
        let events = buffer.lock().await;
        events
            .iter()
            .filter_map(|e| match &e.kind {
                EventKind::ProviderEvent { raw, .. } => raw.clone(),
                _ => None,
            })
            .collect()
    }

    #[tokio::test]
    async fn invalid_utf8_is_replaced_the_same_way_for_every_chunking() {
        let whole: &[u8] = b"data: x\xE1\x80y\n\n";
        let a = raw_payloads(&[whole]).await;
        let b = raw_payloads(&[&whole[..7], &whole[7..]]).await; // split right in front of 0xE1
        assert_eq!(a, b, "frames differ depending on where the network split the bytes");
    }
}
