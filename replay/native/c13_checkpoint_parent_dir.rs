// Native demonstration of finding F-C13-checkpoint-parentdir (property C13). Copy into crates/rip-workspace/tests/
// and run `cargo test --test c13_checkpoint_parent_dir`. Solver counterexample: the 2-byte request "..".
// Realised here with "<root>/../outside.txt": before the fix the checkpoint is created, the outside file is copied
// into the checkpoint store and a rewind writes it back OUTSIDE the workspace root.
use std::fs;

use rip_workspace::Workspace;

#[test]
fn checkpoint_refuses_parent_dir_and_leaves_nothing_behind() {
    let dir = tempfile::tempdir().expect("tmp");
    let root = dir.path().join("root");
    fs::create_dir_all(&root).unwrap();
    let outside = dir.path().join("outside.txt");
    fs::write(&outside, b"secret").unwrap();
    let ws = Workspace::new(&root).expect("workspace");

    let escaping = root.join("..").join("outside.txt");
    let result = ws.create_checkpoint("s1", "label", &[escaping]);
    assert!(result.is_err(), "checkpoint of a path outside the root was accepted");
    // a refused request has no side effect inside the checkpoint store
    let store = root.join(".rip").join("checkpoints").join("s1");
    assert!(!store.exists(), "refused checkpoint left files behind in the checkpoint store");
}
